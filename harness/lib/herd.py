"""Shared machinery of the herd checks (C06, C07): drive the real `animal_populations.main`, observe
every `feed_the_species` call, build the request for the Lean model (`driver_herd`), compare every
list of every species, and the supply-series generators."""
import contextlib
import math

import numpy as np

from lib import wire
from lib.wire import f2b, fl, enc_str, close

SIZES = {"small": 0, "medium": 1, "large": 2}
NREC = 31
REC = ["need", "grassIn", "feedIn", "grassLeft", "feedLeft", "balance", "fed", "starvingPre",
       "pregTotalIn", "pregBirthingIn", "psf", "births", "transferBirths", "retiring",
       "transferPop", "otherDeath", "rate", "pre", "slaughter", "popAfter", "slPreg",
       "hkOther", "hkHealthy", "hkStarving", "hkTotal", "starvingPost", "ods", "odTotal",
       "pregTotalOut", "pregBirthingOut", "popEnd"]
assert len(REC) == NREC

STRATEGIES = ["baseline", "reduced", "feed_only_ruminants"]


def ap_module():
    from src.food_system import animal_populations as ap
    return ap


def food_series(vals):
    from src.food_system.food import Food
    n = len(vals)
    return Food(kcals=[float(v) for v in vals], fat=[0] * n, protein=[0] * n, kcals_units="billion kcals each month",
                fat_units="thousand tons each month", protein_units="thousand tons each month")


class Trace:
    """what the harness observes of one `main()` call without touching /repo: the parameters every
    species has when the month loop starts, the country object, and every `feed_the_species` call"""

    def __init__(self):
        self.snap = {}      # id(animal) -> dict of scalar attributes at append_month_zero
        self.animals = []   # the species in the order main() loops over them (available even if the run raises)
        self.country = None
        self.feed_calls = []  # dicts in call order

    @contextlib.contextmanager
    def patched(self):
        ap = ap_module()
        o_zero = ap.AnimalSpecies.append_month_zero
        o_desp = ap.CountryData.homekill_desperation_parameters
        o_feed = ap.AnimalSpecies.feed_the_species
        tr = self

        def zero(self_):
            tr.snap[id(self_)] = {k: v for k, v in vars(self_).items() if not isinstance(v, (list, dict))}
            tr.animals.append(self_)
            return o_zero(self_)

        def desp(self_):
            tr.country = self_
            return o_desp(self_)

        def feed(self_, grass_input, feed_input, is_ruminant=False):
            # a real herd is a ruminant or not by its own digestion type, whatever flag the caller passes
            dig = getattr(self_, "digestion_type", None)
            rec = {"animal": self_.animal_type, "rum": (dig == "ruminant") if dig is not None else bool(is_ruminant),
                   "rumArg": bool(is_ruminant), "need": float(self_.NE_balance.kcals),
                   "pop": float(self_.current_population), "grassIn": float(grass_input.kcals), "feedIn": float(feed_input.kcals),
                   "effG": float(self_.digestion_efficiency["grass"]), "effF": float(self_.digestion_efficiency["feed"])}
            out = o_feed(self_, grass_input, feed_input, is_ruminant)
            rec.update(grassLeft=float(out[0].kcals), feedLeft=float(out[1].kcals), balance=float(self_.NE_balance.kcals),
                       fed=float(self_.population_fed))
            tr.feed_calls.append(rec)
            return out

        ap.AnimalSpecies.append_month_zero = zero
        ap.CountryData.homekill_desperation_parameters = desp
        ap.AnimalSpecies.feed_the_species = feed
        try:
            yield self
        finally:
            ap.AnimalSpecies.append_month_zero = o_zero
            ap.CountryData.homekill_desperation_parameters = o_desp
            ap.AnimalSpecies.feed_the_species = o_feed


def run_main(ctx, code, feed, grass, scenario, meat_dict=None, constants_inputs=None):
    """returns dict(animals, feed_used, grass_used, trace, error)"""
    ap = ap_module()
    tr = Trace()
    res = {"trace": tr, "error": None, "animals": None}
    with tr.patched(), ctx.quiet(), np.errstate(all="ignore"):
        try:
            animals, fu, gu = ap.main(code, food_series(feed), food_series(grass), scenario, constants_inputs,
                                      remove_first_month=0, kcals_per_head_meat_dict=meat_dict)
            res.update(animals=animals, feed_used=[float(x) for x in fu.kcals], grass_used=[float(x) for x in gu.kcals])
        except AssertionError as e:
            msg = str(e)
            res["error"] = "hours" if "negative hours" in msg else "homekill" if "homekill" in msg else \
                "size" if "small, medium, or large" in msg else "assert:" + msg[:80]
        except (ZeroDivisionError, ValueError, OverflowError, TypeError, KeyError) as e:
            res["error"] = "%s:%s" % (type(e).__name__, str(e)[:80])
    return res


def species_params(a, snap):
    """static parameters + initial state of one species, as the model wants them (floats)"""
    s = snap[id(a)]
    is_milk = "milk" in a.animal_type
    return {
        "name": a.animal_type, "species": a.animal_species, "isMilk": is_milk,
        "rum": a.digestion_type == "ruminant", "size": SIZES.get(a.animal_size, 3),
        "effG": float(a.digestion_efficiency["grass"]), "effF": float(a.digestion_efficiency["feed"]),
        "nePerHead": float(a.net_energy_required_per_month()), "hours": float(a.animal_slaughter_hours),
        "baseline": float(a.baseline_slaughter), "target": float(a.target_population_head),
        "odr": float(a.other_animal_death_rate_monthly), "app": float(a.animals_per_pregnancy),
        "birthRatio": float(a.birth_ratio), "tcf": float(a.transfer_culling_fraction), "gestation": float(a.gestation),
        "rib": float(a.reduction_in_animal_breeding), "tpf": float(a.target_population_fraction),
        "sdf": float(a.starvation_death_fraction),
        "retFrac": float(a.retiring_milk_animals_fraction) if is_milk else 0.0,
        # state when the month loop starts
        "pop": float(s["current_population"]), "slaughterLast": float(s["initial_slaughter"]),
        "pregTotal": float(s["pregnant_animals_total_baseline"]),
        "pregBirthing": float(s["pregnant_animals_birthing_this_month_baseline"]),
        "psf": float(s["pregnant_animal_slaughter_fraction"]),
        "odBaseline": float(s["other_animal_death_basline_head_monthly"]),
    }


SP_STATIC = ["effG", "effF", "nePerHead", "hours", "baseline", "target", "odr", "app", "birthRatio", "tcf", "gestation",
             "rib", "tpf", "sdf", "retFrac"]
SP_STATE = ["pop", "slaughterLast", "pregTotal", "pregBirthing", "psf"]


def herd_tokens(p):
    return " ".join([enc_str(p["name"]), enc_str(p["species"]), "1" if p["isMilk"] else "0", "1" if p["rum"] else "0",
                     str(p["size"])] + [f2b(p[k]) for k in SP_STATIC] + [f2b(p[k]) for k in SP_STATE])


def run_request(country, params, feed, grass):
    """one `herd.run` request line; country = (homekillHours, odhr, hkf)"""
    return "herd.run %s %s %s %d %s %s %s" % (f2b(country[0]), f2b(country[1]), f2b(country[2]), len(params),
                                              " ".join(herd_tokens(p) for p in params), fl(feed), fl(grass))


def parse_run(line):
    """-> ('err', kind) | ('ok', months) with months = list of dict(feedUsed, grassUsed, recs=[dict per species])"""
    t = line.split()
    if t[0] == "err":
        return "err", wire.dec_str(t[1]) if len(t) > 1 else "?"
    assert t[0] == "ok", line[:200]
    nm, ns, nr = int(t[1]), int(t[2]), int(t[3])
    assert nr == NREC
    vals = t[4:]
    assert len(vals) == nm * (2 + ns * nr), (len(vals), nm, ns)
    months = []
    k = 0
    for _ in range(nm):
        fu, gu = wire.b2f(vals[k]), wire.b2f(vals[k + 1])
        k += 2
        recs = []
        for _ in range(ns):
            recs.append({REC[j]: wire.b2f(vals[k + j]) for j in range(nr)})
            k += nr
        months.append({"feedUsed": fu, "grassUsed": gu, "recs": recs})
    return "ok", months


def model_lists(p, months, si):
    """the lists `main()` builds for species index si, as the model's run produces them"""
    col = lambda name: [m["recs"][si][name] for m in months]  # noqa: E731
    n = len(months)
    preg_t = ([months[k]["recs"][si]["pregTotalIn"] for k in range(n)] + [months[-1]["recs"][si]["pregTotalOut"]]) if n else [p["pregTotal"]]
    preg_b = ([months[k]["recs"][si]["pregBirthingIn"] for k in range(n)] + [months[-1]["recs"][si]["pregBirthingOut"]]) if n else [p["pregBirthing"]]
    out = {
        "population": [p["pop"]] + col("popEnd"),
        "population_starving_pre_slaughter": [0.0] + col("starvingPre"),
        "population_starving_month": [0.0],
        "other_death_causes_other_than_starving": [p["odBaseline"]] + col("otherDeath"),
        "other_death_starving": [0.0] + col("ods"),
        "other_death_total": [p["odBaseline"]] + col("odTotal"),
        "slaughter": [p["slaughterLast"]] + col("slaughter"),
        "births_animals_month": col("births"),
        "pregnant_animals_birthing_this_month": preg_b,
        "pregnant_animals_total": preg_t,
        "slaughtered_pregnant_animals": [0.0] + col("slPreg"),
        "transfer_population": col("transferPop"),
        "transfer_births": col("transferBirths") if p["isMilk"] else [],
        "homekill_other_death_this_month": [0.0] + col("hkOther"),
        "homekill_healthy_this_month": [0.0] + col("hkHealthy"),
        "homekill_starving_this_month": [0.0] + col("hkStarving"),
        "total_homekill_this_month": [0.0] + col("hkTotal"),
    }
    if p["isMilk"]:
        out["retiring_milk_animals"] = col("retiring")
    return out


def scale_of(animals):
    """a magnitude for absolute tolerances: the largest head count of the run"""
    return max([1.0] + [abs(float(x)) for a in animals for x in a.population])


def cmp_list(impl, model, rel, abs_):
    if len(impl) != len(model):
        return "length %d vs %d" % (len(impl), len(model))
    for i, (x, y) in enumerate(zip(impl, model)):
        x = float(x)
        if not close(x, y, rel, abs_):
            return "index %d: impl %r model %r" % (i, x, y)
    return None


def compare_run(ctx, tag, case, res, params, months):
    """every list of every species + the monthly totals + the final scalars; returns number of diffs"""
    animals = res["animals"]
    nd = 0
    for si, (a, p) in enumerate(zip(animals, params)):
        ml = model_lists(p, months, si)
        sc = max(1.0, max(abs(float(x)) for x in a.population))
        rel, abs_ = 1e-9, 1e-9 * sc
        for name, val in vars(a).items():
            if not isinstance(val, list):
                continue
            if name not in ml:
                ctx.disagree(tag + ":unmapped-list", dict(case, species=a.animal_type, list=name), len(val), None)
                nd += 1
                continue
            d = cmp_list(val, ml[name], rel, abs_)
            if d:
                ctx.disagree(tag + ":" + name, dict(case, species=a.animal_type), d, None)
                nd += 1
        if months:
            last = months[-1]["recs"][si]
            for name, mv in (("current_population", last["popEnd"]), ("population_fed", last["fed"]),
                             ("pregnant_animal_slaughter_fraction", last["psf"])):
                iv = float(getattr(a, name))
                if not close(iv, mv, rel, abs_):
                    ctx.disagree(tag + ":final-" + name, dict(case, species=a.animal_type), iv, mv)
                    nd += 1
            if not close(float(a.NE_balance.kcals), last["balance"], 1e-9, 1e-12 * sc):
                ctx.disagree(tag + ":final-NE_balance", dict(case, species=a.animal_type), float(a.NE_balance.kcals), last["balance"])
                nd += 1
    for name, iv, mv in (("feed_used", res["feed_used"], [m["feedUsed"] for m in months]),
                         ("grass_used", res["grass_used"], [m["grassUsed"] for m in months])):
        sc = max([1.0] + [abs(x) for x in iv])
        d = cmp_list(iv, mv, 1e-9, 1e-9 * sc)
        if d:
            ctx.disagree(tag + ":" + name, case, d, None)
            nd += 1
    return nd


# ---------------------------------------------------------------------------------------------
# countries and supply series

_codes = None


def country_codes():
    """every code of the head/slaughter table that has at least one herd (the world aggregate is `WOR`)"""
    global _codes
    if _codes is None:
        ap = ap_module()
        df = ap.AnimalDataReader.read_animal_population_data("FAOSTAT_head_and_slaughter.csv")
        heads = [c for c in df.columns if c.endswith("_head")]
        _codes = [str(i) for i, r in df.iterrows() if isinstance(i, str) and sum(float(r[h]) for h in heads) > 0]
    return _codes


def model_countries():
    """the 164 countries the integrated model runs (+ WOR), restricted to codes with herd data"""
    import pandas as pd
    try:
        df = pd.read_csv("data/no_food_trade/computer_readable_combined.csv")
        wanted = [str(x) for x in df["iso3"]]
    except Exception:
        wanted = []
    have = set(country_codes())
    out = [c if c != "SWT" else "SWT" for c in wanted if (c in have or (c == "SWT" and "SWZ" in have))]
    if "WOR" in have and "WOR" not in out:
        out.append("WOR")
    return out or country_codes()


def requirement(params):
    """gross feed that would meet every species' need, and gross grass that would meet the ruminants'"""
    ne_all = sum(p["nePerHead"] * p["pop"] for p in params)
    ne_rum = sum(p["nePerHead"] * p["pop"] for p in params if p["rum"])
    return ne_all / 0.8, ne_rum / 0.6


def gen_series(rng, n, level, kind=None):
    """one monthly series around `level` (the requirement); kinds: zero, const, ramp, spike, random, step"""
    kind = kind or rng.choice(["zero", "const", "const", "ramp-up", "ramp-down", "spike", "random", "step"])
    if kind == "zero" or level <= 0:
        return kind, [0.0] * n
    if kind == "const":
        f = rng.choice([0.0, 0.05, 0.3, 0.5, 0.9, 1.0, 1.0, 1.2, 2.0, rng.uniform(0, 2)])
        return "const%.2f" % f, [level * f] * n
    if kind == "ramp-up":
        top = rng.uniform(0.5, 2.0)
        return kind, [level * top * i / max(1, n - 1) for i in range(n)]
    if kind == "ramp-down":
        top = rng.uniform(0.5, 2.0)
        return kind, [level * top * (n - 1 - i) / max(1, n - 1) for i in range(n)]
    if kind == "spike":
        return kind, [level * (rng.uniform(0.5, 3.0) if rng.random() < 0.15 else rng.choice([0.0, 0.0, 0.1])) for _ in range(n)]
    if kind == "step":
        k = rng.randint(0, n)
        a, b = rng.uniform(0, 2), rng.uniform(0, 2)
        return kind, [level * (a if i < k else b) for i in range(n)]
    return "random", [level * rng.uniform(0, 2) for _ in range(n)]


def meat_dict(rng):
    """kcals per head in billion kcals, the magnitudes `MeatAndDairy.initialize_this_country_animal_kcals` produces"""
    j = lambda: rng.uniform(0.7, 1.4)  # noqa: E731
    return {"KCALS_PER_CHICKEN": 1.65 * 1525 / 1e9 * j(), "KCALS_PER_PIG": 86.0 * 3590 / 1e9 * j(),
            "KCALS_PER_SMALL_ANIMAL": 2.36 * 1525 / 1e9 * j(), "KCALS_PER_MEDIUM_ANIMAL": 24.6 * 3590 / 1e9 * j(),
            "KCALS_PER_LARGE_ANIMAL": 269.7 * 2750 / 1e9 * j()}


def probe(ctx, code, scenario, md=None):
    """species parameters of a country before any month is run (one throw-away month of zero supply)"""
    res = run_main(ctx, code, [0.0], [0.0], scenario, md)
    animals = res["animals"] if res["animals"] is not None else res["trace"].animals
    if not animals:
        return None, res
    return [species_params(a, res["trace"].snap) for a in animals], res


def nextafter(x, up):
    return math.nextafter(x, math.inf if up else -math.inf)


# ---------------------------------------------------------------------------------------------
# executable statements of the properties, evaluated on what the IMPLEMENTATION returned

EFF_GRASS, EFF_FEED = 0.6, 0.8   # the digestion efficiencies the property text (C07) names


def bio_species(animal_type):
    """the biological species of a herd, independent of the `animal_species` attribute"""
    return animal_type.replace("milk_", "").replace("meat_", "")


def oracle_feed_call(c, tol=1e-9, effs=None, supply=None):
    """C07 on one observed `feed_the_species` call (dict of Trace.feed_calls); returns list of (key, what).
    `effs` = (grass, feed) efficiencies for synthetic species; the herds of `main()` are judged with the
    0.6 / 0.8 of the property text.  `supply` = (grass, feed) the whole month started with: the scale of
    the float noise in what a later species is offered.  Keys starting with `near-tie:` are decisions the
    code took on a margin below the tolerance (exact arithmetic cannot exhibit them): counted, not violations."""
    bad = []
    EFF_GRASS, EFF_FEED = effs or (0.6, 0.8)
    need, pop = c["need"], c["pop"]
    g_eaten, f_eaten = c["grassIn"] - c["grassLeft"], c["feedIn"] - c["feedLeft"]
    sg = tol * max(1e-12, abs(c["grassIn"]), abs(supply[0]) if supply else 0.0)
    sf = tol * max(1e-12, abs(c["feedIn"]), abs(supply[1]) if supply else 0.0)
    if g_eaten < -sg or c["grassLeft"] < -sg:
        bad.append(("grass-overuse", "more grass used than supplied (in %r, left %r)" % (c["grassIn"], c["grassLeft"])))
    if f_eaten < -sf or c["feedLeft"] < -sf:
        bad.append(("feed-overuse", "more feed used than supplied (in %r, left %r)" % (c["feedIn"], c["feedLeft"])))
    if not c["rum"] and abs(g_eaten) > sg:
        bad.append(("grass-to-non-ruminant", "a non-ruminant ate grass (%r)" % g_eaten))
    delivered = EFF_GRASS * g_eaten + EFF_FEED * f_eaten
    sn = tol * max(1e-12, abs(need)) + EFF_GRASS * sg + EFF_FEED * sf
    if delivered > need + sn:
        bad.append(("overdelivery", "net energy delivered %r exceeds the requirement %r" % (delivered, need)))
    if abs(c["balance"] - (need - delivered)) > sn:
        bad.append(("energy-balance", "energy still owed %r is not requirement %r minus delivered %r" % (c["balance"], need, delivered)))
    fed = c["fed"]
    sp = tol * max(1.0, abs(pop))
    if not (fed <= pop + sp):
        bad.append(("fed-count", "animals fed %r exceed the herd %r" % (fed, pop)))
    if not (pop - fed >= -sp):
        bad.append(("starving-negative", "starving count %r is negative" % (pop - fed)))
    if need > 0:
        # the delivered fraction, taken from the energy still owed (tied to the supplies by the
        # energy-balance clause above); robust when the requirement is tiny next to the supplies
        frac = min(1.0, max(0.0, 1.0 - c["balance"] / need))
        met = c["balance"] <= 0.0
        if met and abs(fed - pop) > sp:
            exhausted = c["feedLeft"] == 0 and (c["grassLeft"] == 0 or not c["rum"])
            if exhausted and abs(fed - pop) <= 0.5 + sp:
                # supplies one ulp short of the requirement: the code took the "not enough" branch and the
                # subtraction then rounded the energy owed to exactly 0; the count is within half an animal
                bad.append(("near-tie:met-by-rounding", "requirement met only after rounding: %r of %r counted as fed" % (fed, pop)))
            else:
                bad.append(("fed-count", "requirement met but %r of %r counted as fed" % (fed, pop)))
        if not met and not (abs(fed - pop * frac) <= 0.5 + sp):
            bad.append(("fed-count", "animals fed %r is not the herd %r scaled by the delivered fraction %r (within half an animal)" % (fed, pop, frac)))
    else:
        if abs(fed - pop) > sp:
            bad.append(("fed-count-no-requirement", "no requirement but %r of %r counted as fed" % (fed, pop)))
    return bad


def oracle_feed_month(calls, tol=1e-9):
    """C07 priority + chaining over the calls of one month (list order = serving order)"""
    bad = []
    g0 = abs(calls[0]["grassIn"]) if calls else 0.0
    f0 = abs(calls[0]["feedIn"]) if calls else 0.0
    for i in range(1, len(calls)):
        a, b = calls[i - 1], calls[i]
        if not (close(a["grassLeft"], b["grassIn"], 1e-12, 0.0) and close(a["feedLeft"], b["feedIn"], 1e-12, 0.0)):
            bad.append(("feed-chain", "species %s was not offered exactly what %s left" % (b["animal"], a["animal"])))
    for j, cj in enumerate(calls):
        fj = cj["feedIn"] - cj["feedLeft"]
        gj = cj["grassIn"] - cj["grassLeft"]
        for i in range(j):
            ci = calls[i]
            unmet = ci["balance"] > tol * max(1e-12, abs(ci["need"]))
            if fj > tol * max(1e-12, abs(cj["feedIn"]), f0) and unmet:
                bad.append(("priority-feed", "%s received feed while %s (served earlier) was left short" % (cj["animal"], ci["animal"])))
            if gj > tol * max(1e-12, abs(cj["grassIn"]), g0) and unmet and ci["rum"]:
                bad.append(("priority-grass", "%s received grass while the ruminant %s (served earlier) was left short" % (cj["animal"], ci["animal"])))
    return bad


def oracle_run(res, feed, grass, tol=1e-9):
    """C06 (+ the monthly totals of C07) on the lists `main()` returned; returns list of (key, what, where)"""
    bad = []
    animals = res["animals"]
    n = len(feed)
    L = lambda a, name: [float(x) for x in getattr(a, name)]  # noqa: E731
    by_type = {a.animal_type: a for a in animals}
    for m in range(n):
        for name, used, sup in (("feed", res["feed_used"], feed), ("grass", res["grass_used"], grass)):
            s = tol * max(1e-12, abs(sup[m]))
            if used[m] > sup[m] + s or used[m] < -s:
                bad.append((name + "-overuse", "month %d: %s used %r of %r supplied" % (m, name, used[m], sup[m]), {"month": m}))
    hours_cap = {}
    hours_used = {}
    for a in animals:
        is_milk = "milk" in a.animal_type
        P = L(a, "population")
        od, ods, sl = L(a, "other_death_causes_other_than_starving"), L(a, "other_death_starving"), L(a, "slaughter")
        births, tp = L(a, "births_animals_month"), L(a, "transfer_population")
        hkh, hks = L(a, "homekill_healthy_this_month"), L(a, "homekill_starving_this_month")
        ret = L(a, "retiring_milk_animals") if is_milk else [0.0] * n
        tb = L(a, "transfer_births") if is_milk else [0.0] * n
        target = float(a.target_population_head)
        hrs = float(a.animal_slaughter_hours)
        sc = max(1.0, max(abs(x) for x in P))
        where = {"species": a.animal_type}
        if not (len(P) == n + 1 and len(births) == n and len(tp) == n and len(sl) == n + 1):
            bad.append(("list-lengths", "%s: lists do not cover %d months" % (a.animal_type, n), where))
            continue
        hours_cap.setdefault(a.animal_size, 0.0)
        hours_cap[a.animal_size] += hrs * float(a.baseline_slaughter)
        for m in range(n):
            k = m + 1
            w = dict(where, month=m)
            tin = 0.0 if is_milk else tp[m]
            terms = [P[k - 1], births[m], tin, ret[m], od[k], sl[k], ods[k], hkh[k], hks[k]]
            s = tol * max(sc, sum(abs(t) for t in terms))
            want = max(0.0, P[k - 1] + births[m] + tin - ret[m] - od[k] - sl[k] - ods[k] - hkh[k] - hks[k])
            if abs(P[k] - want) > s:
                bad.append(("ledger", "%s month %d: head count %r, ledger gives %r" % (a.animal_type, m, P[k], want), w))
            flows = {"population": P[k], "births": births[m], "natural deaths": od[k], "slaughter": sl[k], "starvation deaths": ods[k],
                     "home-kill healthy": hkh[k], "home-kill starving": hks[k], "retirements": ret[m], "male calves": tb[m],
                     "transfer in": tin, "transfer out": (-tp[m] if is_milk else 0.0),
                     "pregnant": float(a.pregnant_animals_total[k]), "slaughtered pregnant": float(a.slaughtered_pregnant_animals[k]),
                     "home-kill of dead": float(a.homekill_other_death_this_month[k])}
            for fname, v in flows.items():
                if not (v >= -s):
                    bad.append(("negative-" + fname.replace(" ", "-"), "%s month %d: %s is %r" % (a.animal_type, m, fname, v), w))
            pre = P[k - 1] - od[k] - ret[m] + births[m] + tin
            if sl[k] > max(0.0, pre) + s:
                bad.append(("slaughter-exceeds-available", "%s month %d: slaughter %r of %r available" % (a.animal_type, m, sl[k], pre), w))
            if pre >= target and pre - sl[k] < target - s:
                bad.append(("slaughter-below-target", "%s month %d: slaughter %r takes the herd from %r below its target %r" % (a.animal_type, m, sl[k], pre, target), w))
            if pre < target - s and sl[k] > s:
                bad.append(("slaughter-below-target", "%s month %d: herd %r already below target %r but %r slaughtered" % (a.animal_type, m, pre, target, sl[k]), w))
            hours_used.setdefault((a.animal_size, m), 0.0)
            hours_used[(a.animal_size, m)] += sl[k] * hrs
        # milk -> meat transfer
        if is_milk:
            mate = by_type.get("meat_" + bio_species(a.animal_type)) or by_type.get(bio_species(a.animal_type))
            surv = 1.0 - float(a.transfer_culling_fraction)
            for m in range(n):
                w = dict(where, month=m)
                s = tol * max(sc, abs(ret[m]) + abs(tb[m]))
                if abs(tb[m] - births[m] * surv) > s:
                    bad.append(("male-calves", "%s month %d: surviving male calves %r, births %r x survival %r" % (a.animal_type, m, tb[m], births[m], surv), w))
                if abs(-tp[m] - (ret[m] + tb[m])) > s:
                    bad.append(("transfer-out", "%s month %d: transferred out %r, retired %r + male calves %r" % (a.animal_type, m, -tp[m], ret[m], tb[m]), w))
                if mate is not None:
                    got = float(mate.transfer_population[m])
                    if abs(got - (ret[m] + tb[m])) > s:
                        bad.append(("transfer", "%s month %d: retired %r + surviving male calves %r, but %r added to %s" % (
                            a.animal_type, m, ret[m], tb[m], got, mate.animal_type), w))
        else:
            mate = by_type.get("milk_" + bio_species(a.animal_type))
            if mate is None:
                for m in range(n):
                    if abs(tp[m]) > tol * sc:
                        bad.append(("transfer", "%s month %d: %r animals transferred in but there is no dairy herd of the species" % (a.animal_type, m, tp[m]), dict(where, month=m)))
    for (size, m), used in hours_used.items():
        cap = hours_cap[size]
        if used > cap + tol * max(1.0, abs(cap)):
            bad.append(("hours", "month %d: size class %s uses %r slaughter hours of %r" % (m, size, used, cap), {"size": size, "month": m}))
    return bad


WF = [("effG", lambda p: p["effG"] > 0), ("effF", lambda p: p["effF"] > 0), ("nePerHead", lambda p: p["nePerHead"] >= 0),
      ("hours", lambda p: p["hours"] > 0), ("baseline", lambda p: p["baseline"] >= 0), ("target", lambda p: p["target"] >= 0),
      ("odr", lambda p: p["odr"] >= 0), ("app", lambda p: p["app"] >= 0), ("birthRatio", lambda p: p["birthRatio"] >= 1),
      ("tcf", lambda p: 0 <= p["tcf"] <= 1), ("gestation", lambda p: p["gestation"] > 0), ("rib", lambda p: 0 <= p["rib"] <= 1),
      ("sdf", lambda p: p["sdf"] >= 0), ("retFrac", lambda p: p["retFrac"] >= 0), ("pop", lambda p: p["pop"] >= 0),
      ("slaughterLast", lambda p: p["slaughterLast"] >= 0), ("pregTotal", lambda p: p["pregTotal"] >= 0),
      ("pregBirthing", lambda p: p["pregBirthing"] >= 0), ("psf", lambda p: p["psf"] >= 0), ("size", lambda p: p["size"] < 3)]


def wf_failures(params):
    """which hypotheses of the C06 theorems (`HerdOK`) the captured parameters violate"""
    bad = [(p["name"], k) for p in params for k, f in WF if not f(p)]
    keys = [p["species"] for p in params if p["isMilk"]]
    if len(set(keys)) != len(keys):   # MilkKeysDistinct (C06_transfer)
        bad.append(("dairy herds", "species keys not distinct"))
    return bad


# ---------------------------------------------------------------------------------------------
# one full case: real main() + model run + comparison + oracles

CLAMPED_BIRTH_COUNTRIES = ["BLR", "BGR", "GEO", "MLI", "MKD", "MDA"]   # witnesses of the negative-births defect (fixed)


def country_tuple(res):
    c = res["trace"].country
    return (float(c.homekill_hours_total_month[-1]), float(c.other_death_homekill_rate), float(c.homekill_fraction))


def main_case(ctx, case, prop, compare=True):
    """run one (country, strategy, series[, meat dictionary]) on the real `main()` and on the model.
    prop = "C06" | "C07": whose executable property is turned into violations.  Returns a small summary."""
    code, sc, feed, grass = case["code"], case["scenario"], case["feed"], case["grass"]
    md = case.get("meat_dict")
    n = len(feed)
    res = run_main(ctx, code, feed, grass, sc, md)
    tr = res["trace"]
    short = {k: case[k] for k in ("code", "scenario", "kf", "kg") if k in case}
    short["months"] = n
    if res["animals"] is None and not tr.animals:
        ctx.count("main:setup-error:" + str(res["error"]).split(":")[0])
        ctx.violation("main-setup-fails", "main() failed before the month loop for %s/%s: %s" % (code, sc, res["error"]), case)
        return {"error": res["error"]}
    # if the run died inside the loop the species (and their parameters at loop start) are still known
    params = [species_params(a, tr.snap) for a in (res["animals"] if res["animals"] is not None else tr.animals)]
    country = country_tuple(res) if tr.country is not None else (0.0, 0.5, 0.0)
    wf = wf_failures(params)
    for name, k in wf:
        ctx.count("hypothesis-violated:" + k)
    if wf:
        ctx.disagree("theorem-hypotheses", dict(short, failures=wf[:5]), "captured parameters", "HerdOK")
    if compare:
        st, months = parse_run(ctx.lean([run_request(country, params, feed, grass)])[0])
    else:   # replay: only the real code and the executable property
        st, months = ("ok", None) if not res["error"] else ("skipped", None)
    summ = {"error": res["error"], "model": st, "nspecies": len(params)}
    if not compare and res["error"]:
        if prop == "C06":
            ctx.violation("main:raises-" + str(res["error"]).split(":")[0], "main() raised (%s) for %s/%s" % (res["error"], code, sc), case)
        return summ
    if res["error"] or st == "err":
        ie, me = res["error"], (months if st == "err" else None)
        ctx.count("main:impl-error:%s/model:%s" % (ie, me))
        # an assert inside the month loop aborts the whole run.  Exact arithmetic cannot raise it
        # (C06_no_error); when the model executed at Float raises the same assert it is an ulp effect
        # of the float arithmetic (runtime note only); when only the real code raises, the run of this
        # country/series simply does not exist: the property fails for it.
        if ie and not me and prop == "C06":
            ctx.violation("main:raises-" + str(ie).split(":")[0], "main() raised (%s) for %s/%s where the model completes" % (ie, code, sc), case)
        elif ie != me:
            ctx.disagree("run:error", short, ie, me)
        return summ
    if compare:
        nd = compare_run(ctx, "run", short, res, params, months)
        summ["diffs"] = nd
    ns = len(params)
    calls = tr.feed_calls
    if len(calls) != n * ns:
        ctx.disagree("run:feed-calls", short, len(calls), n * ns)
    # model's per-call feeding record vs the observed calls
    if compare and len(calls) == n * ns:
        for m in range(n):
            for si in range(ns):
                c, r = calls[m * ns + si], months[m]["recs"][si]
                sc_ = max(1.0, abs(c["pop"]))
                for k, rel, ab in (("need", 1e-9, 1e-15), ("grassIn", 1e-9, 1e-12), ("feedIn", 1e-9, 1e-12), ("grassLeft", 1e-9, 1e-9 * max(1e-3, c["grassIn"])),
                                   ("feedLeft", 1e-9, 1e-9 * max(1e-3, c["feedIn"])), ("balance", 1e-9, 1e-9 * max(1e-12, c["need"])), ("fed", 1e-9, 1e-9 * sc_)):
                    if not close(c[k], r[k], rel, ab):
                        ctx.disagree("run:feed-call:" + k, dict(short, month=m, species=c["animal"]), c[k], r[k])
                        break
    partial = 0
    if prop == "C07":
        for a in res["animals"]:
            if dict(a.digestion_efficiency) != {"grass": 0.6, "feed": 0.8}:
                ctx.violation("efficiency-constants", "%s digests grass/feed with %r, the property says 0.6 / 0.8" % (a.animal_type, a.digestion_efficiency),
                              dict(case, species=a.animal_type))
        for ci_, c in enumerate(calls):
            m_ = ci_ // ns
            for key, what in oracle_feed_call(c, supply=(grass[m_], feed[m_])):
                if key.startswith("near-tie:"):
                    ctx.count(key)
                else:
                    ctx.violation("main/feed_the_species:" + key, what, dict(case, call=c))
            ctx.count("feed-branch:" + ("none-needed" if c["need"] == 0 else "met" if c["balance"] == 0 else "partial"))
            partial += c["balance"] > 0
        for m in range(n):
            for key, what in oracle_feed_month(calls[m * ns:(m + 1) * ns]):
                ctx.violation("main/feed_animals:" + key, what + " (month %d)" % m, dict(case, month=m))
        for key, what, where in oracle_run(res, feed, grass):
            if key in ("feed-overuse", "grass-overuse", "negative-starving"):
                ctx.violation("main:" + key, what, dict(case, **where))
        # the starving count is the remainder of the herd that was fed: herd at feeding time minus the animals counted as fed
        if len(calls) == n * ns:
            by_name = {a.animal_type: a for a in res["animals"]}
            for ci_, c in enumerate(calls):
                a = by_name.get(c["animal"])
                if a is None:
                    continue
                m_ = ci_ // ns
                got, want = float(a.population_starving_pre_slaughter[m_ + 1]), c["pop"] - c["fed"]
                if abs(got - want) > 1e-9 * max(1.0, abs(c["pop"])):
                    ctx.violation("main:starving-remainder", "%s month %d: %r counted as starving, herd %r minus fed %r is %r" % (c["animal"], m_, got, c["pop"], c["fed"], want),
                                  dict(case, species=c["animal"], month=m_))
        for a in res["animals"]:
            st_ = [float(x) for x in a.population_starving_pre_slaughter]
            P = [float(x) for x in a.population]
            for m in range(n):
                if st_[m + 1] < -1e-9 * max(1.0, P[m]) or st_[m + 1] > P[m] * (1 + 1e-9) + 0.5:
                    ctx.violation("main:starving-count", "%s month %d: %r starving of a herd of %r" % (a.animal_type, m, st_[m + 1], P[m]),
                                  dict(case, species=a.animal_type, month=m))
    else:
        for key, what, where in oracle_run(res, feed, grass):
            if key in ("feed-overuse", "grass-overuse"):
                continue
            ctx.violation("main:" + key, what, dict(case, **where))
        for m in (months or []):
            for r in m["recs"]:
                ctx.count("slaughter:" + ("none" if r["slaughter"] == 0 else "hours-limited" if r["slaughter"] == r["rate"] else "target-limited"))
                partial += r["starvingPre"] > 0
    summ["partial"] = partial
    return summ


def make_case(rng, ctx, code, sc, n=None, kinds=None, md=None):
    params, r0 = probe(ctx, code, sc, md)
    if params is None:
        return None
    fr, gr = requirement(params)
    n = n or rng.choice([24, 24, 36, 48, 60, 120])
    kf, feed = gen_series(rng, n, fr, kinds[0] if kinds else None)
    kg, grass = gen_series(rng, n, gr, kinds[1] if kinds else None)
    case = {"code": code, "scenario": sc, "kf": kf, "kg": kg, "feed": feed, "grass": grass}
    if md:
        case["meat_dict"] = md
    return case


def knife_edge_case(rng, ctx, code, sc, n=24):
    """supplies that are EXACTLY what the first k species need in month 0 (and one ulp around it)"""
    params, r0 = probe(ctx, code, sc)
    if params is None:
        return None
    k = rng.randint(1, len(params))
    need_rum = sum(p["nePerHead"] * p["pop"] for p in params[:k] if p["rum"])
    need_non = sum(p["nePerHead"] * p["pop"] for p in params[:k] if not p["rum"])
    g0 = need_rum / 0.6
    f0 = need_non / 0.8
    wob = lambda x: rng.choice([x, nextafter(x, True), nextafter(x, False)])  # noqa: E731
    feed = [wob(f0) for _ in range(n)]
    grass = [wob(g0) for _ in range(n)]
    return {"code": code, "scenario": sc, "kf": "knife-edge-%d" % k, "kg": "knife-edge-%d" % k, "feed": feed, "grass": grass}


def pick_countries(ctx, nquick):
    allc = model_countries()
    if not ctx.quick:
        return allc
    fixed = ["ARG", "IND", "WOR", ctx.rng.choice(CLAMPED_BIRTH_COUNTRIES)]
    rest = [c for c in allc if c not in fixed]
    ctx.rng.shuffle(rest)
    return [c for c in fixed if c in allc][:nquick] + rest[:max(0, nquick - len(fixed))]


def replay_main(ctx, rep, prop):
    hits = []
    for v in rep.get("violations", []):
        c = v["case"]
        if "code" not in c or "feed" not in c:
            continue
        before = len(ctx.violations)
        main_case(ctx, {k: c[k] for k in ("code", "scenario", "feed", "grass", "kf", "kg", "meat_dict") if k in c}, prop, compare=False)
        new = [x for x in ctx.violations[before:] if x["key"] == v["key"]]
        if new:
            hits.append(new[0])
    return hits
