import Mathlib.Algebra.Order.Field.Basic
import Mathlib.Tactic.Linarith
import Mathlib.Tactic.FieldSimp
import Mathlib.Tactic.Positivity
import Mathlib.Tactic.Ring

structure Conv (α : Type) where
  population : α
  kcals_daily : α
  kcals_monthly : α
  billion_kcals_needed : α

section
variable {α : Type} [Add α] [Sub α] [Mul α] [Div α] [OfNat α 1] [OfNat α 100] [OfNat α 30] [OfScientific α]

def mkConv (pop kd : α) : Conv α :=
  { population := pop, kcals_daily := kd, kcals_monthly := kd * 30,
    billion_kcals_needed := kd * 30 * pop / (1e9 : α) }

/-- generated from get_kcal_multipliers (excerpt) -/
def kcalMult (c : Conv α) (u : String) : Option α :=
  let billion_kcal_to_billion_people : α := 1 / c.kcals_monthly
  let billion_kcal_to_percent_fed : α := 100 / c.billion_kcals_needed
  let billion_people_to_kcals_equivalent : α := (1e9 : α) / c.population * c.kcals_daily
  let percent_kcal_to_kcals_per_day : α := 1 / 100 * c.kcals_daily
  match u with
  | "billion kcals" => some 1
  | "billion kcals each month" => some 1
  | "billion people fed" => some billion_kcal_to_billion_people
  | "percent people fed" => some billion_kcal_to_percent_fed
  | "kcals per person per day" => some (billion_kcal_to_billion_people * billion_people_to_kcals_equivalent)
  | "kcals per person per day per month" => some (billion_kcal_to_percent_fed * percent_kcal_to_kcals_per_day)
  | _ => none

def conv (c : Conv α) (a b : String) (x : α) : Option α :=
  match kcalMult c a, kcalMult c b with
  | some ma, some mb => some (1 / ma * mb * x)
  | _, _ => none
end

#eval conv (mkConv (7.8e9 : Float) 2100) "billion kcals" "percent people fed" 491400.0

variable {K : Type} [Field K] [LinearOrder K] [IsStrictOrderedRing K]

theorem mult_ne_zero (pop kd : K) (hp : 0 < pop) (hk : 0 < kd) (u : String) (m : K)
    (h : kcalMult (mkConv pop kd) u = some m) : m ≠ 0 := by
  unfold kcalMult mkConv at h
  simp only at h
  split at h <;> simp at h <;> subst h <;> positivity

theorem round_trip (pop kd : K) (hp : 0 < pop) (hk : 0 < kd) (a b : String) (x y : K)
    (h1 : conv (mkConv pop kd) a b x = some y) : conv (mkConv pop kd) b a y = some x := by
  unfold conv at *
  cases ha : kcalMult (mkConv pop kd) a <;> cases hb : kcalMult (mkConv pop kd) b <;> simp [ha, hb] at h1 ⊢
  rename_i ma mb
  have hma := mult_ne_zero pop kd hp hk a ma ha
  have hmb := mult_ne_zero pop kd hp hk b mb hb
  subst h1
  field_simp

theorem forms_equal (pop kd : K) (hp : 0 < pop) (hk : 0 < kd) :
    kcalMult (mkConv pop kd) "kcals per person per day" = kcalMult (mkConv pop kd) "kcals per person per day per month" := by
  simp [kcalMult, mkConv]
  field_simp

theorem anchor_percent (pop kd : K) (hp : 0 < pop) (hk : 0 < kd) :
    conv (mkConv pop kd) "billion kcals" "percent people fed" (mkConv pop kd).billion_kcals_needed = some 100 := by
  simp [conv, kcalMult, mkConv]
  field_simp
#print axioms round_trip
