"""C18 - hand-offs between rounds preserve totals, bounds and priorities (DESIGN.md §7 C18)."""
import types
import numpy as np
from lib import wire
from lib.wire import fl, f2b, Reader, close, close_list

ID = "C18"
LEVEL = "proof"
LEVEL_TEXT = ("Lean 4 theorems, for arbitrary list lengths and values over any ordered field, about an executable model of the four hand-off helpers "
              "(sum = min(cap, eaten), per-food bound, priority order; back-fill preserves totals and removes negatives; re-timed meat >= round 1; "
              "bump never lowers and never exceeds a ceiling), tied to parameters.py by running model and real helpers on the same generated arrays every run")
LEVEL_NOTE = ("Trusted: Lean kernel (axioms propext/Classical.choice/Quot.sound only), the Python correspondence harness, exact-arithmetic model vs IEEE doubles "
              "(compared at rel 1e-9). The fake round-1 result object passed to calculate_human_consumption_for_min_needs is built by the harness.")
TECHNIQUE = "Lean 4 proof by induction over lists + differential correspondence with the real helpers"
DRIVER = "driver_handoff"
LEAN_MODULES = ["AllfedModel.Props.C18"]
OBLIGATIONS = [
    "Allfed.C18.fillMonth_sum", "Allfed.C18.fillMonth_le", "Allfed.C18.fillMonth_nonneg",
    "Allfed.C18.fillMonth_priority", "Allfed.C18.minNeeds_month_sum_eq_cap",
    "Allfed.C18.dailyMax_eq_min",
    "Allfed.C18.fillNeg_sum", "Allfed.C18.fillNeg_length", "Allfed.C18.fillNeg_nonneg",
    "Allfed.C18.redistribute_none_iff", "Allfed.C18.redistribute_total",
    "Allfed.C18.redistribute_ge_round1", "Allfed.C18.redistribute_nonneg",
    "Allfed.C18.bump_never_lowers", "Allfed.C18.bump_within_ceiling", "Allfed.C18.bump_within_ceiling_of_le",
    "Allfed.C18.bump_feed_leak_witness", "Allfed.C18.bump_above_ceiling_counterexample",
    "Allfed.C18.increase_length", "Allfed.C18.increase_nonneg", "Allfed.C18.increase_le_half_extra", "Allfed.C18.increase_zero_iff",
    "Allfed.C18.increase1_eq", "Allfed.C18.final_charge_never_lowers_and_within_demand",
]
RULE_REAL = "plus three real three-round runs (ARG, NZL, USA continued feed; 48 months): captured arguments of increase_biofuels_then_feed vs the model's rule of thumb"
RULE = ("generated arrays (lengths 1..120, magnitudes 1e-6..1e6, zeros, ties, negatives where the code admits them) fed to the four real "
        "helpers of Parameters and to the Lean model; a case is non-trivial when the model takes a non-default branch "
        "(cap binds / a deficit is filled / an increase is applied); distinct = distinct input arrays")
ASSUMPTIONS = [
    "theorems are over any linearly ordered field; floats are compared to the model at Float with rel 1e-9",
    "bump_within_ceiling holds for arbitrary inputs after the fix: commit for D13 (feed ceiling up to the code's own 1e-9 regulariser)",
    "minNeeds sum theorem: foods and cap non-negative",
]
TRUSTED = ["fake InterpretedResults namespace built by the harness for calculate_human_consumption_for_min_needs (attributes the function reads)"]

FOODS = ["fish", "meat", "milk", "greenhouse", "immediate_outdoor_crops", "new_stored_outdoor_crops", "stored_food", "scp",
         "cell_sugar", "seaweed"]
OUT_KEYS = ["fish", "meat", "dairy", "greenhouse", "outdoor_crops", "stored_food", "methane_scp", "cellulosic_sugar", "seaweed"]


def _params():
    from src.optimizer.parameters import Parameters
    return Parameters()


def _mag(rng):
    return 10 ** rng.uniform(-6, 6)


def gen_series(rng, n, signed=False, zero_p=0.2):
    m = _mag(rng)
    style = rng.choice(["rand", "const", "ramp", "spiky", "ties"])
    out = []
    for i in range(n):
        if rng.random() < zero_p:
            v = 0.0
        elif style == "const":
            v = m
        elif style == "ramp":
            v = m * (i + 1) / n
        elif style == "spiky":
            v = m * (100 if rng.random() < 0.1 else rng.random())
        elif style == "ties":
            v = m * rng.choice([0.5, 1.0, 1.0, 2.0])
        else:
            v = m * rng.random()
        if signed and rng.random() < 0.4:
            v = -v * rng.choice([1.0, 0.5, 1.0, 3.0])
        out.append(float(v))
    return out


# ----------------------------------------------------------------------------------------------
def run_min_needs(ctx, P, cases):
    from src.food_system.food import Food
    from src.food_system.unit_conversions import UnitConversions
    lines, impl, meta = [], [], []
    for (kd, T, p1, months, consistent) in cases:
        n = len(months)
        conv = UnitConversions()
        conv.set_nutrition_requirements(kcals_daily=kd, fat_daily=50.0, protein_daily=60.0, include_fat=False,
                                        include_protein=False, population=1e6)
        Food.conversions = conv
        ns = types.SimpleNamespace(percent_people_fed=p1, include_protein=False, include_fat=False)
        cols = list(zip(*months))  # ten columns (outdoor crops split in two)
        for name, col in zip(FOODS, cols):
            setattr(ns, name + "_kcals_equivalent", Food(
                kcals=list(col), fat=[0.0] * n, protein=[0.0] * n,
                kcals_units="kcals per person per day each month",
                fat_units="effective kcals per person per day each month",
                protein_units="effective kcals per person per day each month"))
        ci = {"MINIMUM_PERCENT_FED_BEFORE_NONHUMAN_CONSUMPTION_ALLOWED": T, "NUTRITION": {"KCALS_DAILY": kd}, "NMONTHS": n}
        try:
            with ctx.quiet():
                res = P.calculate_human_consumption_for_min_needs(ci, ns, None)
            out = [[float(res[k].kcals[m]) for k in OUT_KEYS] for m in range(n)]
            err = None
        except AssertionError as e:
            out, err = None, "assert:" + str(e)[:80]
        impl.append((out, err))
        lines.append("handoff.dailyMax %s %s %s" % (f2b(kd), f2b(p1), f2b(T)))
        meta.append(("cap", len(impl) - 1))
        for m in range(n):
            row = months[m]
            nine = [row[0], row[1], row[2], row[3], row[4] + row[5], row[6], row[7], row[8], row[9]]
            lines.append("handoff.fillMonth CAP %s" % fl(nine))
            meta.append(("month", len(impl) - 1, m, nine))
    # two passes: first the caps, then the months with the model's own cap
    caps = ctx.lean([l for l, mt in zip(lines, meta) if mt[0] == "cap"])
    capv = [wire.b2f(c) for c in caps]
    lines2 = []
    for l, mt in zip(lines, meta):
        if mt[0] == "month":
            lines2.append(l.replace("CAP", f2b(capv[mt[1]])))
    outs = ctx.lean(lines2) if lines2 else []
    k = 0
    for mt in meta:
        if mt[0] != "month":
            continue
        _, ci_, m, nine = mt
        model = Reader(outs[k]).floats()
        k += 1
        kd, T, p1, months, consistent = cases[ci_]
        out, err = impl[ci_]
        if out is None:
            continue
        got = out[m]
        if not close_list(got, model):
            ctx.disagree("minNeeds.month", {"kd": kd, "T": T, "p1": p1, "month": m, "foods": nine}, got, model)
        # property oracle on the implementation's output
        cap = kd * min(p1, T) / 100.0
        tot = sum(nine)
        want = min(cap, tot)
        tol = 1e-9 * max(1.0, abs(want), tot)
        case = {"helper": "calculate_human_consumption_for_min_needs", "kd": kd, "T": T, "p1": p1, "month": m, "eaten": nine, "got": got}
        if abs(sum(got) - want) > tol:
            ctx.violation("minneeds-sum", "minimum human consumption sums to %r, not min(cap=%r, eaten=%r)" % (sum(got), cap, tot), case)
        if any(g > f + tol or g < -tol for g, f in zip(got, nine)):
            ctx.violation("minneeds-exceeds-eaten", "minimum consumption of a food exceeds what was eaten in round 1", case)
        for j in range(9):
            if got[j] > tol and any(got[i] < nine[i] - tol for i in range(j)):
                ctx.violation("minneeds-priority", "a lower-priority food is used before a higher-priority one is exhausted", case)
                break
        ctx.count("minNeeds:cap-binds" if tot > cap else "minNeeds:cap-slack")
    for ci_, (out, err) in enumerate(impl):
        kd, T, p1, months, consistent = cases[ci_]
        ctx.case(("minNeeds", kd, T, p1, months), nontrivial=any(sum(r) > kd * min(p1, T) / 100 for r in months),
                 sample={"helper": "calculate_human_consumption_for_min_needs", "kd": kd, "T": T, "p1": p1, "nmonths": len(months), "month0": months[0]})
        if err:
            ctx.count("minNeeds:impl-" + err.split(":")[0])
            # the documented function has no rejecting branch for non-negative inputs
            ctx.violation("minneeds-rejects", "helper rejected a non-negative input: " + err,
                          {"helper": "calculate_human_consumption_for_min_needs", "kd": kd, "T": T, "p1": p1, "months": months})


def gen_min_needs(ctx, ncases):
    rng = ctx.rng
    cases = []
    for _ in range(ncases):
        n = rng.choice([1, 2, 3, 12, 24, 48, 120]) if rng.random() < 0.5 else rng.randint(1, 120)
        n = min(n, 24) if ctx.quick and rng.random() < 0.7 else n
        kd = rng.choice([2100.0, 2100.0, 1800.0, rng.uniform(500, 4000)])
        months = []
        scale = kd * rng.choice([0.05, 0.3, 1.0, 1.0, 3.0])
        for m in range(n):
            row = [scale * rng.random() * rng.choice([0, 0.1, 0.3, 1]) for _ in range(10)]
            months.append([float(x) for x in row])
        tot = [r[0] + r[1] + r[2] + r[3] + (r[4] + r[5]) + r[6] + r[7] + r[8] + r[9] for r in months]
        consistent = rng.random() < 0.8
        p1 = float(min(tot) / kd * 100) if consistent else float(rng.uniform(0, 200))
        T = float(rng.choice([0.0, 10.0, 50.0, 100.0, rng.uniform(0, 100), min(p1, 100.0)]))
        cases.append((kd, T, p1, months, consistent))
    return cases


# ----------------------------------------------------------------------------------------------
def run_fill_redistribute(ctx, P, n_fill, n_red):
    rng = ctx.rng
    fills, reds = [], []
    for _ in range(n_fill):
        n = rng.randint(1, 12) if rng.random() < 0.5 else rng.randint(1, 120)
        fills.append(gen_series(rng, n, signed=True))
    fills += [[-1.0], [0.0], [1.0], [-1.0, 1.0], [1.0, -1.0], [-3.0, 1.0, -1.0, 5.0], [-5.0, 1.0, 1.0], [2.0, -1.0, -1.0, 0.0]]
    for _ in range(n_red):
        n = rng.randint(1, 12) if rng.random() < 0.4 else rng.randint(1, 120)
        r1 = gen_series(rng, n)
        mode = rng.choice(["more", "shifted", "less", "equal", "rand"])
        if mode == "more":
            r2 = [x * rng.uniform(1.0, 2.0) + rng.random() * 0.1 * (abs(x) + 1e-3) for x in r1]
        elif mode == "shifted":
            k = rng.randint(0, n - 1)
            r2 = r1[k:] + r1[:k]
            r2 = [x * 1.05 for x in r2]
        elif mode == "less":
            r2 = [x * rng.uniform(0.5, 1.0) for x in r1]
        elif mode == "equal":
            r2 = list(r1)
        else:
            r2 = [x * 1.2 for x in gen_series(rng, n)]
        reds.append((r1, [float(x) for x in r2]))
    lines = ["handoff.fillNeg " + fl(a) for a in fills] + ["handoff.redistribute %s %s" % (fl(a), fl(b)) for a, b in reds]
    outs = ctx.lean(lines)
    for a, o in zip(fills, outs[:len(fills)]):
        got = [float(x) for x in P.fill_negatives_with_positives(list(a))]
        model = Reader(o).floats()
        if not close_list(got, model):
            ctx.disagree("fillNeg", {"arr": a}, got, model)
        tol = 1e-9 * max(1.0, max(abs(x) for x in a)) * len(a)
        case = {"helper": "fill_negatives_with_positives", "arr": a, "got": got}
        if abs(sum(got) - sum(a)) > tol:
            ctx.violation("fill-sum", "fill_negatives_with_positives changed the total", case)
        if sum(a) >= 0 and min(got) < -tol:
            ctx.violation("fill-negative", "non-negative total but a month stays negative", case)
        ctx.case(("fill", a), nontrivial=min(a) < 0 < max(a), sample={"helper": "fill_negatives_with_positives", "arr": a[:12]})
        ctx.count("fillNeg:has-deficit" if min(a) < 0 else "fillNeg:no-deficit")
    for (r1, r2), o in zip(reds, outs[len(fills):]):
        try:
            with ctx.quiet():
                res = P.get_second_round_kcals_with_redistributed_meat(np.array(r1), np.array(r2), None, None)
            got = None if res is None else [float(x) for x in res]
            err = None
        except AssertionError as e:
            got, err = None, "assert"
        rd = Reader(o)
        tag = rd.tok()
        model = None if tag == "none" else rd.floats()
        s1, s2 = float(np.array(r1).sum()), float(np.array(r2).sum())
        near_tie = close(s1, s2, 1e-12, 0.0) and s1 != s2
        case = {"helper": "get_second_round_kcals_with_redistributed_meat", "r1": r1, "r2": r2, "got": got}
        if err:
            ctx.count("redistribute:impl-assert")
            ctx.violation("redistribute-asserts", "re-timing of meat raised an internal assertion", case)
        elif near_tie:
            ctx.count("redistribute:near-tie-skipped")
        elif (got is None) != (model is None) or (got is not None and not close_list(got, model, 1e-9, 1e-9 * max(1.0, s2))):
            ctx.disagree("redistribute", {"r1": r1, "r2": r2}, got, model)
        if got is not None:
            tol = 1e-9 * max(1.0, max(abs(x) for x in r2 + r1)) * len(r1)
            if abs(sum(got) - s2) > tol:
                ctx.violation("redistribute-total", "re-timed meat does not preserve the round-2 total", case)
            if min(got) < -tol:
                ctx.violation("redistribute-negative", "re-timed meat negative in some month", case)
            if any(g < a - tol for g, a in zip(got, r1)):
                ctx.violation("redistribute-below-round1", "re-timed meat below the no-feed level in some month", case)
        else:
            if not err and not (s1 > s2):
                ctx.violation("redistribute-none", "returned None although round 2 has at least as much meat", case)
        ctx.case(("red", r1, r2), nontrivial=got is not None and any(b < a for a, b in zip(r1, r2)),
                 sample={"helper": "redistribute", "r1": r1[:6], "r2": r2[:6]})
        ctx.count("redistribute:none" if got is None else "redistribute:some")


# ----------------------------------------------------------------------------------------------
def gen_bump(ctx, n_cases, in_domain_only=False):
    rng = ctx.rng
    cases = []
    for _ in range(n_cases):
        n = rng.randint(1, 8) if rng.random() < 0.5 else rng.randint(1, 120)
        maxB = gen_series(rng, n, zero_p=0.15)
        maxF = gen_series(rng, n, zero_p=0.15)
        in_dom = in_domain_only or rng.random() < 0.75
        if in_dom:
            b = [x * rng.choice([0, 0.3, 1.0, rng.random()]) for x in maxB]
            f = [x * rng.choice([0, 0.3, 1.0, rng.random()]) for x in maxF]
            inc = [abs(x) * rng.choice([0, 0.1, 1, 10]) for x in gen_series(rng, n)]
        else:
            b = [x * rng.choice([0, 0.5, 1.0, 1.5]) for x in maxB]
            f = [x * rng.choice([0, 0.5, 1.0, 1.0000001, 1.5, 3.0]) + rng.choice([0, 0, 1e-3]) for x in maxF]
            inc = [x * rng.choice([0, 0.1, 1, 10]) for x in gen_series(rng, n)]
        av = [(bb + ff) * rng.choice([0.5, 1.0, 1.5, 10.0]) + rng.choice([0, 1.0]) * _mag(rng) for bb, ff in zip(b, f)]
        cases.append(tuple([float(v) for v in xs] for xs in (b, f, inc, maxB, maxF, av)) + (in_dom,))
    return cases


def run_bump(ctx, P, cases):
    lines = ["handoff.bump " + " ".join(fl(x) for x in c[:6]) for c in cases]
    outs = ctx.lean(lines)
    for c, o in zip(cases, outs):
        b, f, inc, mb, mf, av, in_dom = c
        with np.errstate(all="ignore"):
            gb, gf = P.increase_biofuels_then_feed(*[np.array(x, dtype=float) for x in (b, f, inc, mb, mf, av)])
        gb, gf = [float(x) for x in gb], [float(x) for x in gf]
        rd = Reader(o)
        mbm, mfm = rd.floats(), rd.floats()
        # near-singular split (tot + 1e-9 ~ 0) amplifies rounding: skip comparison there, the oracle still runs
        sing = any(abs(min(bb + i, m1) - bb + min(ff + i, m2) - ff + 1e-9) < 1e-12 for bb, ff, i, m1, m2 in zip(b, f, inc, mb, mf))
        if sing:
            ctx.count("bump:near-singular-skipped")
        elif not (close_list(gb, mbm, 1e-7, 1e-9) and close_list(gf, mfm, 1e-7, 1e-9)):
            ctx.disagree("bump", {"biofuel": b, "feed": f, "increase": inc, "maxB": mb, "maxF": mf, "avail": av}, [gb, gf], [mbm, mfm])
        for i in range(len(b)):
            case = {"helper": "increase_biofuels_then_feed", "month": i, "biofuel": b[i], "feed": f[i], "increase": inc[i],
                    "max_biofuel": mb[i], "max_feed": mf[i], "avail": av[i], "biofuel_out": gb[i], "feed_out": gf[i]}
            tol = 1e-9 * max(1.0, abs(mb[i]), abs(mf[i]), abs(b[i]), abs(f[i]))
            if gb[i] < b[i] - tol or gf[i] < f[i] - tol:
                ctx.violation("bump-lowers", "adjustment lowered feed or biofuel", case)
            dom = b[i] <= mb[i] and f[i] <= mf[i] and inc[i] >= 0
            if gb[i] > b[i] + tol and gb[i] > mb[i] + tol:
                ctx.violation("bump-biofuel-above-ceiling" + ("" if dom else "-input-out-of-range"),
                              "biofuel raised above its demand ceiling (%r -> %r, ceiling %r)" % (b[i], gb[i], mb[i]), case)
            if gf[i] > f[i] + tol + 1e-9 and gf[i] > mf[i] + tol + 2e-9:
                ctx.violation("bump-feed-above-ceiling" + ("" if dom else "-input-out-of-range"),
                              "feed raised above its demand ceiling (%r -> %r, ceiling %r)" % (f[i], gf[i], mf[i]), case)
        ctx.case(("bump",) + tuple(map(tuple, c[:6])), nontrivial=any(x > y for x, y in zip(gb + gf, b + f)),
                 sample={"helper": "increase_biofuels_then_feed", "biofuel": b[:4], "feed": f[:4], "increase": inc[:4], "maxB": mb[:4], "maxF": mf[:4], "avail": av[:4]})
        ctx.count("bump:in-domain" if in_dom else "bump:out-of-domain")


CORPUS_BUMP = [
    # D13: feed already above its ceiling by slightly more than the biofuel increase
    ([2.0], [5.0 + 1.0 + 1e-9 * 0], [1.0], [3.0], [5.0], [100.0], False),
    ([2.0], [6.000000001], [1.0], [3.0], [5.0], [100.0], False),
    ([2.0], [6.000000002], [1.0], [3.0], [5.0], [100.0], False),
    ([275.4428820132029], [7.829920295412667e-05], [1.073149613669864], [183.62858800880193], [0.00015659840590825333], [137.72149009170488], False),
    ([2.0060554606822836e-05], [16.35081746402573], [9499.858143400477], [1.3373703071215224e-05], [32.70163492805146], [8.17541876229017], False),
]



# ----------------------------------------------------------------------------------------------
# the third round's "potential increase" (compute_parameters_third_round): tie on real three-round runs
REAL_RUNS = [("ARG", dict(NMONTHS=48)), ("NZL", dict(NMONTHS=48)), ("USA", dict(NMONTHS=48, shutoff="continued"))]


def run_real_increase(ctx, runs=REAL_RUNS):
    """run real three-round scenarios, capture the six arguments of increase_biofuels_then_feed from outside, recompute the third one
    (the rule of thumb: half of the extra meat of round 3 over round 1, in kcals per person per day, minus 20 (NZL: 100), clipped at 0,
    converted back) with the model from the two `each_month_meat_slaughtered` series, and compare"""
    from lib import pipeline
    from src.optimizer.parameters import Parameters
    for iso, over in runs:
        cap = {}
        orig = Parameters.increase_biofuels_then_feed

        def wrapped(self, *a, _orig=orig, _cap=cap, **k):
            _cap["args"] = [np.array(x, dtype=float).copy() for x in a]
            r = _orig(self, *a, **k)
            _cap["out"] = [np.array(x, dtype=float).copy() for x in r]
            return r
        Parameters.increase_biofuels_then_feed = wrapped
        try:
            with ctx.quiet(), np.errstate(all="ignore"):
                run = pipeline.run_scenario(iso, pipeline.options(**over))
        finally:
            Parameters.increase_biofuels_then_feed = orig
        case = {"country": iso, "options": over}
        if run.error or "args" not in cap or "third" not in run.params or "third" not in run.param_args:
            ctx.count("increase:real-run-without-third-round")
            ctx.notes.append("C18 increase rule: %s %r did not reach the third round (%s)" % (iso, over, run.error))
            continue
        if len(cap["args"]) != 6:
            ctx.disagree("increase:captured-arguments", case, len(cap["args"]), 6)
            continue
        tc1 = run.param_args["third"][0][3]
        tc3 = run.params["third"][1]
        m1f, m3f = tc1["each_month_meat_slaughtered"], tc3["each_month_meat_slaughtered"]
        m1 = [float(v) for v in np.asarray(m1f.kcals, dtype=float)]
        m3 = [float(v) for v in np.asarray(m3f.kcals, dtype=float)]
        if m1f.kcals_units != "billion kcals each month" or m3f.kcals_units != "billion kcals each month":
            ctx.disagree("increase:meat-series-units", case, [m1f.kcals_units, m3f.kcals_units], "billion kcals each month")
            continue
        # u: what in_units_kcals_equivalent multiplies the kcals of a "billion kcals each month" quantity by
        u = float(m1f.get_conversion(m1f.units, "kcals per person per day each month", "effective kcals per person per day each month",
                                     "effective kcals per person per day each month")[0])
        code = str(run.constants_for_params.get("COUNTRY_CODE", iso))
        o = ctx.lean(["handoff.nzlConst %s" % wire.enc_str(code)])[0]
        const = Reader(o).float()
        o = ctx.lean(["handoff.increase %s %s %s %s" % (f2b(u), f2b(const), fl(m1), fl(m3))])[0]
        model = Reader(o).floats()
        got = [float(v) for v in cap["args"][2]]
        scale = max([1.0] + [abs(v) for v in got] + [abs(a - b) for a, b in zip(m3, m1)])
        if len(model) != len(got) or not close_list(got, model, 1e-9, 1e-9 * scale):
            bad = max(range(min(len(got), len(model))), key=lambda j: abs(got[j] - model[j])) if got and model else 0
            ctx.violation("increase-rule", "%s: the potential increase handed to increase_biofuels_then_feed in month %d is %r; the documented rule "
                          "(half of the extra meat of round 3 over round 1, in kcals per person per day, minus %r, clipped at zero) gives %r" % (
                              iso, bad, got[bad] if got else None, const, model[bad] if model else None),
                          dict(case, month=bad, increase=got[bad] if got else None, rule=model[bad] if model else None, u=u, const=const,
                               meat_round1=m1[bad] if m1 else None, meat_round3=m3[bad] if m3 else None))
        # the whole final adjustment on the captured arrays: model pipeline vs the code's result, and the property itself
        b, f, inc, mb, mf, av = [[float(v) for v in a] for a in cap["args"]]
        o = ctx.lean(["handoff.bumpAll %s" % " ".join(fl(x) for x in (b, f, model if len(model) == len(b) else inc, mb, mf, av))])[0]
        rd = Reader(o)
        mbm, mfm = rd.floats(), rd.floats()
        gb, gf = [float(v) for v in cap["out"][0]], [float(v) for v in cap["out"][1]]
        if not (close_list(gb, mbm, 1e-7, 1e-9 * scale) and close_list(gf, mfm, 1e-7, 1e-9 * scale)):
            ctx.disagree("increase:final-adjustment", case, [gb[:6], gf[:6]], [mbm[:6], mfm[:6]])
        for j in range(len(b)):
            tol = 1e-9 * max(1.0, abs(mb[j]), abs(mf[j]), abs(b[j]), abs(f[j]))
            if gb[j] < b[j] - tol or gf[j] < f[j] - tol:
                ctx.violation("bump-lowers", "%s: the final adjustment lowered feed or biofuel in month %d" % (iso, j), dict(case, month=j))
            if gb[j] > max(b[j], mb[j]) + tol or gf[j] > max(f[j], mf[j]) + tol + 2e-9:
                ctx.violation("final-charge-above-demand", "%s: the final adjustment left month %d above the larger of its input and its demand" % (iso, j), dict(case, month=j))
        npos = sum(1 for v in got if v > 0)
        nclip = sum(1 for a, c in zip(m1, m3) if c - a > 0) - npos
        ctx.case(("increase", iso, tuple(sorted(over.items()))), nontrivial=npos > 0,
                 sample={"helper": "third-round increase", "country": iso, "u": u, "const": const, "months_positive": npos, "months_clipped": max(nclip, 0)})
        ctx.count("increase:real-runs")
        ctx.count("increase:months-positive", npos)
        ctx.count("increase:months-clipped", max(nclip, 0))
        ctx.count("increase:const-%g" % const)


def correspondence(ctx):
    P = _params()
    k = ctx.budget(1, 20)
    run_min_needs(ctx, P, gen_min_needs(ctx, 60 * k))
    run_fill_redistribute(ctx, P, 400 * k, 400 * k)
    run_bump(ctx, P, CORPUS_BUMP + gen_bump(ctx, 600 * k))
    run_real_increase(ctx)


def search(ctx):
    """tie broke: look harder for an input on which the property itself fails on the real helpers"""
    P = _params()
    run_min_needs(ctx, P, gen_min_needs(ctx, 300))
    run_fill_redistribute(ctx, P, 3000, 3000)
    run_bump(ctx, P, gen_bump(ctx, 4000, in_domain_only=True))
    run_real_increase(ctx, REAL_RUNS + [("BRA", dict(NMONTHS=48)), ("IND", dict(NMONTHS=48)), ("AUS", dict(NMONTHS=48, shutoff="continued"))])


def replay(ctx, rep):
    P = _params()
    hits = []
    for v in rep.get("violations", []):
        c = v["case"]
        h = c.get("helper")
        before = len(ctx.violations)
        if h == "increase_biofuels_then_feed":
            run_bump(ctx, P, [([c["biofuel"]], [c["feed"]], [c["increase"]], [c["max_biofuel"]], [c["max_feed"]], [c["avail"]], False)])
        elif h == "fill_negatives_with_positives":
            ctx.rng.seed(0)
            lines_backup = c["arr"]
            got = [float(x) for x in P.fill_negatives_with_positives(list(lines_backup))]
            if abs(sum(got) - sum(lines_backup)) > 1e-9 * max(1, max(map(abs, lines_backup))) * len(got) or (sum(lines_backup) >= 0 and min(got) < -1e-9 * max(1, max(map(abs, lines_backup))) * len(got)):
                ctx.violation(v["key"], v["what"], c)
        elif h == "get_second_round_kcals_with_redistributed_meat":
            res = P.get_second_round_kcals_with_redistributed_meat(np.array(c["r1"]), np.array(c["r2"]), None, None)
            if res is None or min(res) < -1e-6 or abs(res.sum() - sum(c["r2"])) > 1e-6 * max(1, sum(c["r2"])) or any(g < a - 1e-6 * max(1, a) for g, a in zip(res, c["r1"])):
                ctx.violation(v["key"], v["what"], c)
        elif "country" in c and h is None:
            run_real_increase(ctx, [(c["country"], c.get("options", {}))])
        elif h == "calculate_human_consumption_for_min_needs":
            months = c.get("months") or [c["eaten"][:4] + [c["eaten"][4], 0.0] + c["eaten"][5:]]
            run_min_needs(ctx, P, [(c["kd"], c["T"], c["p1"], months, False)])
        if len(ctx.violations) > before:
            hits.append(ctx.violations[-1])
    return bool(hits), hits
