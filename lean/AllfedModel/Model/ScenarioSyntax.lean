/-
Syntax of the scenario tables (property C13).  Hand-written; `Gen/ScenarioTable.lean`
(regenerated from `src/scenarios/scenarios.py` and `run_scenario.py` on every check run by
`harness/translators/tr_scenarios.py`) is a value of these types, `Model/Scenario.lean` gives
them their meaning.  No Mathlib.

Paths: `constants_for_params["A"]["B"]` is the path `A/B`; a key of the separate `time_consts`
dictionary is written `time_consts:K`.
-/
namespace Allfed.Scenario

/-- a Python literal.  Numbers are exact decimals `m·10^e` (ints have `e = 0`; floats are the
    digits of `repr`, so `61.7 = num 617 (-1)`, `1.43e9 = num 1430000000 0`). -/
inductive Lit
  | num (m : Int) (e : Int)
  | bool (b : Bool)
  | str (s : String)
  deriving DecidableEq, Repr, Inhabited

/-- the small expression grammar of the setters (DESIGN §4.1) -/
inductive Ex
  | lit (l : Lit)
  | cd (col : String)        -- country_data[col]
  | const (path : String)    -- constants_for_params[...] read back
  | opt (name : String)      -- scenario_option_copy[name]   (dispatcher only)
  | add (a b : Ex)
  | sub (a b : Ex)
  | mul (a b : Ex)
  | div (a b : Ex)
  | emptyDict
  | opaque (src : String)    -- computed with numpy / country data; allow-listed
  deriving DecidableEq, Repr, Inhabited

/-- one statement of a setter, in source order (helper calls inlined, constant loops unrolled) -/
inductive Stmt
  | assertClear (flag : String)          -- assert not self.<flag>
  | setFlag (flag : String)              -- self.<flag> = True
  | assertScope (isGlobal : Bool)        -- assert [not] self.IS_GLOBAL_ANALYSIS
  | setScope (isGlobal : Bool)           -- self.IS_GLOBAL_ANALYSIS = ...
  | assertHasKey (key : String)          -- assert "K" in constants_for_params.keys()
  | assertNoCountry                      -- assert country_data is None      (dispatcher)
  | assertRange (x lo hi : Ex)           -- assert hi >= x >= lo
  | newDict                              -- constants_for_params = {}
  | write (path : String) (v : Ex)
  | writeList (path : String) (vs : List Ex)
  | writeRepeat (path : String) (v count : Ex)   -- np.array([v] * count)
  | writeIfEq (a b : Ex) (path : String) (v : Ex) -- if a == b: write
  | opaque (src : String) (writes : List String)  -- allow-listed numpy / data computation
  deriving DecidableEq, Repr, Inhabited

structure SetterInfo where
  name : String
  /-- parameters after `self`, in order -/
  params : List String
  body : List Stmt
  /-- member of the translator's OPAQUE allow-list -/
  isOpaque : Bool
  deriving DecidableEq, Repr, Inhabited

/-- what a dispatch branch does, in order -/
inductive Action
  | call (setter : String)
  | stmt (s : Stmt)
  | exit                                 -- sys.exit()
  deriving DecidableEq, Repr, Inhabited

structure Branch where
  value : String
  actions : List Action
  deriving DecidableEq, Repr, Inhabited

/-- `int(...)` / `float(...)` applied to an override value -/
inductive Conv
  | int
  | float
  deriving DecidableEq, Repr, Inhabited

/-- the numeric overrides at the end of `set_depending_on_option` -/
inductive Override
  /-- `for key in options: if needle in key: c[key + suffix] = conv(options[key])` -/
  | substr (needle suffix : String) (conv : Conv)
  /-- `if key in options: c[target] = float(options[key]); assert lo <= c[target] <= hi`;
      `extra` = any further key the block writes (must be empty: C13_frame) -/
  | exact (key target : String) (lo hi : Lit) (extra : List String)
  /-- `if key in options: m = float(options[key]); assert lo <= m <= hi; c[t] *= m` for `targets`,
      and inside `try/except: pass` for `tryTargets` -/
  | mult (key : String) (lo hi : Lit) (targets tryTargets : List String)
  deriving DecidableEq, Repr, Inhabited

/-- one top-level step of `set_depending_on_option` (after the presence assertions and the
    copy-and-alter step), in source order -/
inductive DispItem
  /-- `if copy[opt] == v₁: … elif … else:`; `default = none` means the `else` branch is
      `assert False` (unknown values rejected) -/
  | family (opt : String) (branches : List Branch) (default : Option (List Action))
  | stmt (s : Stmt)
  | override (o : Override)
  deriving DecidableEq, Repr, Inhabited

/-- one entry of `failing_scenarios` in `alter_scenario_if_known_to_fail` -/
structure FailRule where
  iso3 : String
  conds : List (String × List String)
  corrKey : String
  corrVal : String
  deriving DecidableEq, Repr, Inhabited

end Allfed.Scenario
