import AllfedModel.Model.Supply
import Mathlib.Algebra.Order.Field.Basic
import Mathlib.Algebra.Order.Field.Rat
import Mathlib.Tactic.Linarith
import Mathlib.Tactic.Ring
import Mathlib.Tactic.FieldSimp
import Mathlib.Tactic.NormNum
import Mathlib.Tactic.Positivity
/-!
# Helper lemmas and proofs for properties C08 and C09 (supply series)

Everything is proved over an arbitrary linearly ordered field `K`, for every horizon `n`.
The pattern: each code-shaped series of `Model/Supply.lean` is shown to be
`(List.range n).map spec` for its closed-form `spec`; sign, monotonicity, cap and homogeneity
are then pointwise facts about `spec`.
-/
namespace Allfed.Proofs.Supply
open Allfed Allfed.Supply

set_option linter.unusedSectionVars false
set_option linter.unusedVariables false

/-! ## lists -/

theorem getElem?_range_ite (n i : Nat) : (List.range n)[i]? = if i < n then some i else none := by
  split_ifs with h
  · exact List.getElem?_range h
  · exact List.getElem?_eq_none (by simpa using h)

theorem getElem?_map_range {β : Type} (f : Nat → β) (n i : Nat) :
    ((List.range n).map f)[i]? = if i < n then some (f i) else none := by
  rw [List.getElem?_map, getElem?_range_ite]
  split_ifs <;> rfl

/-- a list is determined by its entries: the form in which all refinement theorems are proved -/
theorem eq_map_range {β : Type} (l : List β) (n : Nat) (f : Nat → β)
    (h : ∀ i, l[i]? = if i < n then some (f i) else none) : l = (List.range n).map f := by
  apply List.ext_getElem?
  intro i
  rw [h i, getElem?_map_range]

theorem length_of_getElem? {β : Type} (l : List β) (n : Nat) (f : Nat → β)
    (h : ∀ i, l[i]? = if i < n then some (f i) else none) : l.length = n := by
  rw [eq_map_range l n f h]; simp

theorem mapE_ok {β γ : Type} (f : β → Except String γ) (g : β → γ) (l : List β)
    (h : ∀ x ∈ l, f x = .ok (g x)) : mapE f l = .ok (l.map g) := by
  induction l with
  | nil => rfl
  | cons x t ih =>
    have hx := h x (by simp)
    have ht := ih (fun y hy => h y (by simp [hy]))
    simp only [mapE, hx, ht, List.map_cons]

theorem length_flatMap_blocks {β : Type} (bl : Nat → List β) (n : Nat) (hlen : ∀ k, (bl k).length = n) (m : Nat) :
    ((List.range m).flatMap bl).length = m * n := by
  induction m with
  | zero => simp
  | succ m ih =>
    rw [List.range_succ, List.flatMap_append, List.length_append, ih]
    simp [hlen, Nat.succ_mul]

/-- concatenation of `m` blocks of equal length `n`: entry `i` is entry `i % n` of block `i / n` -/
theorem getElem?_flatMap_blocks {β : Type} (bl : Nat → List β) (n : Nat) (hlen : ∀ k, (bl k).length = n)
    (m i : Nat) :
    ((List.range m).flatMap bl)[i]? = if i < m * n then (bl (i / n))[i % n]? else none := by
  induction m with
  | zero => simp
  | succ m ih =>
    rw [List.range_succ, List.flatMap_append, List.getElem?_append, length_flatMap_blocks bl n hlen m]
    by_cases h1 : i < m * n
    · have h2 : i < (m + 1) * n := by rw [Nat.succ_mul]; omega
      rw [if_pos h1, ih, if_pos h1, if_pos h2]
    · rw [if_neg h1]
      simp only [List.flatMap_cons, List.flatMap_nil, List.append_nil]
      by_cases h2 : i < (m + 1) * n
      · rw [if_pos h2]
        have hd : i / n = m := Nat.div_eq_of_lt_le (Nat.le_of_not_lt h1) h2
        have hm : i % n = i - m * n := by
          have := Nat.div_add_mod i n
          rw [hd] at this
          have h3 : n * m = m * n := Nat.mul_comm n m
          omega
        rw [hd, hm]
      · rw [if_neg h2]
        apply List.getElem?_eq_none
        rw [hlen, Nat.succ_mul] at *
        omega

theorem getElem?_flatMap_replicate {β : Type} (f : Nat → β) (n m i : Nat) :
    ((List.range m).flatMap fun k => List.replicate n (f k))[i]? =
      if i < m * n then some (f (i / n)) else none := by
  rw [getElem?_flatMap_blocks (fun k => List.replicate n (f k)) n (fun k => by simp) m i]
  split_ifs with h
  · rw [List.getElem?_replicate, if_pos]
    apply Nat.mod_lt
    rcases Nat.eq_zero_or_pos n with h0 | h0
    · subst h0; simp at h
    · exact h0
  · rfl

end Allfed.Proofs.Supply
