import AllfedModel.Model.Report
import AllfedModel.Proofs.Report
/-!
# C04 — headline, monthly breakdown and saved tables agree

For every feasible point of the LP the code builds (human-maximising rounds), every horizon, all
inputs with non-zero monthly requirement.
-/
namespace Allfed.C04
open Allfed.LP Allfed.AllocLP Allfed.Report Allfed.PhysSpec

variable {K : Type} [Field K] [LinearOrder K] [IsStrictOrderedRing K]

/-- each contribution is the optimiser's allocation of that food times a constant
    (`ratio·100 / BILLION_KCALS_NEEDED` in percent) -/
theorem contribution_linear (i : Inp K) (ratio v : K) (hkm : i.kcalsMonthly ≠ 0) :
    toPercent i (billionsFed i ratio v) = v * (ratio * 100 / i.billionKcalsNeeded) :=
  Proofs.Report.contribution_linear i ratio v hkm

/-- the nine per-food contributions of a month add up to that month's consumed-kcals variable -/
theorem sumPercent_eq_consumed (i : Inp K) (x : Var → K) (h : Feasible (buildLP i .toHumans) x)
    (hkm : i.kcalsMonthly ≠ 0) (m : Nat) (hm : m < i.nmonths) :
    sumPercent i x m = x (.mv .consumedKcals m) :=
  Proofs.Report.sumPercent_eq_consumed i x h hkm m hm

theorem minOver_le (f : Nat → K) (n m : Nat) (hm : m < n) : minOver f n ≤ f m :=
  Proofs.Report.minOver_le f n m hm

theorem minOver_attained (f : Nat → K) (n : Nat) (hn : 0 < n) : ∃ m, m < n ∧ minOver f n = f m :=
  Proofs.Report.minOver_attained f n hn

/-- the headline is the smallest monthly consumed-kcals value -/
theorem headline_eq_min_consumed (i : Inp K) (x : Var → K) (h : Feasible (buildLP i .toHumans) x)
    (hkm : i.kcalsMonthly ≠ 0) (hN : 0 < i.nmonths) :
    headline i x = minOver (fun m => x (.mv .consumedKcals m)) i.nmonths :=
  Proofs.Report.headline_eq_min_consumed i x h hkm hN

/-- the secondary solves cannot degrade the headline below the floor they carry -/
theorem headline_ge_floor (i : Inp K) (x : Var → K) (z : K)
    (h : Feasible (buildLP i .toHumans ++ floorRows i .toHumans z) x)
    (hkm : i.kcalsMonthly ≠ 0) (hN : 0 < i.nmonths) :
    z * 0.99995 ≤ headline i x :=
  Proofs.Report.headline_ge_floor i x z h hkm hN

/-- … and it cannot exceed any upper bound `zopt` of the first solve's objective:
    replacing the objective variable by the headline keeps the point feasible -/
theorem headline_le_optimum (i : Inp K) (x : Var → K) (zopt : K)
    (hopt : ∀ x', Feasible (buildLP i .toHumans) x' → x' .objective ≤ zopt)
    (h : Feasible (buildLP i .toHumans) x) (hkm : i.kcalsMonthly ≠ 0) (hN : 0 < i.nmonths) :
    headline i x ≤ zopt :=
  Proofs.Report.headline_le_optimum i x zopt hopt h hkm hN

/-- hence the reported headline is within 0.005 % (< 0.01 %) of the optimum -/
theorem headline_within_tolerance (i : Inp K) (x : Var → K) (zopt : K)
    (hopt : ∀ x', Feasible (buildLP i .toHumans) x' → x' .objective ≤ zopt)
    (h : Feasible (buildLP i .toHumans ++ floorRows i .toHumans zopt) x)
    (hkm : i.kcalsMonthly ≠ 0) (hN : 0 < i.nmonths) (hz : 0 ≤ zopt) :
    |headline i x - zopt| ≤ 0.0001 * zopt :=
  Proofs.Report.headline_within_tolerance i x zopt hopt h hkm hN hz

/-- the split of crops into "eaten immediately" and "eaten from new storage" always adds up,
    for all inputs (negative production included) -/
theorem split_adds_up (produced eaten : K) : (splitCrops produced eaten).1 + (splitCrops produced eaten).2 = eaten :=
  Proofs.Report.split_adds_up produced eaten

example : splitCrops (3 : ℚ) 5 = (3, 2) ∧ splitCrops (7 : ℚ) 5 = (5, 0) ∧ splitCrops (-1 : ℚ) 5 = (-1, 6) := by
  decide +kernel

/-! ## feed and biofuel drawn from each resource (`<resource>_feed`, `<resource>_biofuels`)

`Report.nonhumanMonth i x m` is what the driver answers to `report.nonhuman` and what the check
compares the interpreter's ten series with: per month, feed drawn from stored food, outdoor crops,
seaweed (times its energy content), cellulosic sugar, SCP, then biofuel in the same order, each in
percent of the monthly need (`alloc · ratio / billionKcalsNeeded · 100`), 0 for a resource that is
switched off. -/

/-- human-maximising rounds: the five feed entries add up to the feed charge, the five biofuel
    entries to the biofuel charge (percent of need); no hypothesis on `billionKcalsNeeded` needed -/
theorem nonhuman_sum_eq_charge (i : Inp K) (x : Var → K) (h : Feasible (buildLP i .toHumans) x)
    (hany : anyFeedVar i = true) (m : Nat) (hm : m < i.nmonths) :
    ((nonhumanMonth i x m).take 5).sum = at' i.feed m / i.billionKcalsNeeded * 100 ∧
    ((nonhumanMonth i x m).drop 5).sum = at' i.biofuel m / i.billionKcalsNeeded * 100 :=
  Proofs.Report.nonhuman_sum_eq_charge i x h hany m hm

/-- feed-maximising round: the sums stay within the ceilings -/
theorem nonhuman_sum_le_ceiling (i : Inp K) (x : Var → K) (h : Feasible (buildLP i .toAnimals) x)
    (hany : anyFeedVar i = true) (hb : 0 ≤ i.billionKcalsNeeded) (m : Nat) (hm : m < i.nmonths) :
    ((nonhumanMonth i x m).take 5).sum ≤ at' i.maxFeed m / i.billionKcalsNeeded * 100 ∧
    ((nonhumanMonth i x m).drop 5).sum ≤ at' i.maxBiofuel m / i.billionKcalsNeeded * 100 :=
  Proofs.Report.nonhuman_sum_le_ceiling i x h hany hb m hm

/-- every reported entry is non-negative -/
theorem nonhuman_nonneg (i : Inp K) (x : Var → K) (hx : ∀ v, 0 ≤ x v)
    (hb : 0 ≤ i.billionKcalsNeeded) (hkc : 0 ≤ i.seaweedKcals) (m : Nat) :
    ∀ e ∈ nonhumanMonth i x m, 0 ≤ e :=
  Proofs.Report.nonhuman_nonneg i x hx hb hkc m

/-- the entries are the LP's totals: the feed entries sum to `feedTotal`, the biofuel entries to
    `biofuelTotal`, whatever the point -/
theorem nonhuman_sums_are_totals (i : Inp K) (x : Var → K) (m : Nat) :
    ((nonhumanMonth i x m).take 5).sum = feedTotal i x m / i.billionKcalsNeeded * 100 ∧
    ((nonhumanMonth i x m).drop 5).sum = biofuelTotal i x m / i.billionKcalsNeeded * 100 :=
  ⟨Proofs.Report.nonhuman_feed_sum i x m, Proofs.Report.nonhuman_biofuel_sum i x m⟩

/-- the sugar and the SCP entries are distinguishable: at this point (SCP and sugar on, one unit of
    SCP and no sugar fed) a call site with the two arguments exchanged reports something else —
    the sums above cannot see such a swap, the entry-by-entry comparison of the check can -/
theorem nonhuman_swap_counterexample :
    ∃ (i : Inp ℚ) (x : Var → ℚ) (m : Nat), m < i.nmonths ∧ (∀ v, 0 ≤ x v) ∧
      swapSugarScp (nonhumanMonth i x m) ≠ nonhumanMonth i x m :=
  Proofs.Report.nonhuman_swap_counterexample

end Allfed.C04
