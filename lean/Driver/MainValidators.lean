import Driver.Loop
import Driver.Ops.Validators
def main : IO Unit := runDriver Ops.Validators.ops
