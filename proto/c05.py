import sys, os, io, contextlib
os.chdir('/repo'); sys.path.insert(0,'/repo')
import matplotlib; matplotlib.use('Agg')
import numpy as np, pandas as pd, warnings
warnings.filterwarnings('ignore')
from src.scenarios.run_scenario import ScenarioRunner
from src.optimizer import parameters as P
from src.food_system import animal_populations as AP
objs=[]
_init=AP.CalculateFeedAndMeat.__init__
def init(self,*a,**k):
    _init(self,*a,**k); objs.append((self,a,k))
AP.CalculateFeedAndMeat.__init__=init
P.CalculateFeedAndMeat=AP.CalculateFeedAndMeat
tcs=[]
_ro=ScenarioRunner.run_optimizer
def ro(self,c,t,optimization_type=None,min_human_food_consumption=None,title='U'):
    tcs.append((optimization_type,c,t)); return _ro(self,c,t,optimization_type,min_human_food_consumption,title)
ScenarioRunner.run_optimizer=ro
tab=pd.read_csv('/repo/data/no_food_trade/computer_readable_combined.csv')
rows={r['iso3']:r for _,r in tab.iterrows()}
base=dict(scale='country',seasonality='country',grasses='country_nuclear_winter',crop_disruption='country_nuclear_winter',
 scenario='no_resilient_foods',fish='nuclear_winter',waste='baseline_in_country',nutrition='catastrophe',intake_constraints='enabled',
 stored_food='baseline',ratio_stocks_untouched='zero',shutoff='continued',cull='do_eat_culled',fat='not_required',protein='not_required',meat_strategy='reduce_breeding',NMONTHS=120)
for kv in sys.argv[2:]:
    k,v=kv.split('='); base[k]=v
iso=sys.argv[1]; row=rows[iso]; sr=ScenarioRunner()
with contextlib.redirect_stdout(io.StringIO()):
    c,tc,sl=sr.set_depending_on_option(base,country_data=row)
    res=sr.run_and_analyze_scenario(c,tc,sl,False,False,'',row,False,row['country'],iso,title='scratch_'+iso)
print(len(objs),'herd runs;',len(tcs),'optimizer runs')
KG=dict(small=2.36,medium=24.6,large=269.7); KC=dict(small=1525,medium=3590,large=2750)
wd=c['WASTE_DISTRIBUTION']['MEAT']/100
for (typ,C,T),(h,a,k) in zip(tcs,objs):
    meat=np.zeros(c['NMONTHS']); milkpop=np.zeros(c['NMONTHS'])
    for an in h.all_animals:
        s=np.array(an.slaughter)
        if an.animal_type=='chicken': y=c['KG_MEAT_PER_CHICKEN']*1525/1e9
        elif an.animal_type=='pig': y=c['KG_MEAT_PER_PIG']*3590/1e9
        else: y=KG[an.animal_size]*KC[an.animal_size]/1e9
        meat+=s*y*(1-wd)
        if 'milk' in an.animal_type: milkpop+=np.array(an.population)
    milk=milkpop*c['MILK_YIELD_KG_PER_MILK_BEARING_ANIMAL_PER_YEAR']/12/1000*1000*610/1e9*(1-c['WASTE_DISTRIBUTION']['MILK']/100)*(1-c['WASTE_RETAIL']/100)
    tm=np.array(T['each_month_meat_slaughtered'].kcals)
    print(typ,'meat monthly maxabs diff %.3g (max %.3g); total diff %.3g; milk maxdiff %.3g; feed charged-sum %.1f herd feed used %.1f; grass used<=avail %s'%(np.abs(tm-meat).max(),meat.max(),tm.sum()-meat.sum(),np.abs(np.array(T['milk_kcals'])-milk).max(),np.sum(T['feed'].kcals),h.feed_used.kcals.sum(), bool(np.all(h.grass_used.kcals<=np.array(k['available_grass'].kcals)[:len(h.grass_used.kcals)]+1e-9))))
