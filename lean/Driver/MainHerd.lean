import Driver.Loop
import Driver.Ops.Herd
def main : IO Unit := runDriver Ops.Herd.ops
