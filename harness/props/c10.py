"""C10 - unit conversions are mutually consistent and anchored (DESIGN.md §7 C10)."""
import json
import numpy as np
from lib import wire
from lib.wire import f2b, enc_str, Reader, close
from translators import tr_units

ID = "C10"
LEVEL = "proof"
LEVEL_TEXT = ("Lean 4 theorems over the multiplier tables regenerated from unit_conversions.py on every run: every multiplier non-zero for every unit "
              "name, round trip and via-intermediate for all pairs/triples (a real forall over names), the three forms of each unit carry the same "
              "multiplier, anchor and dimensional identities pin each multiplier to its meaning; in_units/in_units_* run against the model")
LEVEL_NOTE = ("Trusted: Lean kernel (propext/Classical.choice/Quot.sound), the ast translator tr_units (its output is also compared numerically with the "
              "real get_*_multipliers on every run), exact field arithmetic vs IEEE doubles (rel 1e-9). Positive population and daily needs assumed.")
TECHNIQUE = "translator (source -> Lean tables) + Lean 4 algebraic proofs + differential correspondence of in_units"
DRIVER = "driver_units"
LEAN_MODULES = ["AllfedModel.Props.C10"]
TRANSLATORS = [tr_units.run]
OBLIGATIONS = ["Allfed.C10." + n for n in [
    "kcalMult_ne_zero", "fatMult_ne_zero", "proteinMult_ne_zero", "conv_round_trip", "conv_via", "conv_defined_iff",
    "kcal_round_trip", "fat_round_trip", "protein_round_trip", "kcal_via", "fat_via", "protein_via",
    "kcal_names", "fat_names", "protein_names", "kcal_forms_equal", "fat_forms_equal", "protein_forms_equal",
    "kcal_anchor", "fat_anchor", "protein_anchor", "kcal_dimensions", "fat_dimensions", "protein_dimensions",
    "inUnits_form", "suffix_recognised"]]
RULE = ("random positive (kcals_daily, fat_daily, protein_daily, population) settings x every (from,to) pair of the 15/18/18 names of the three tables "
        "through the real Food.in_units (scalar and monthly quantities) and the five in_units_* helpers; non-trivial = conversion factor != 1; "
        "distinct = distinct (setting, from-triple, to-triple, shape)")
ASSUMPTIONS = ["population, kcals_daily, fat_daily, protein_daily > 0 (the code divides by them)",
               "the suffix of a quantity is decided by its kcals unit only, as in_units does"]

BASES_K = ["billion kcals", "billion people fed", "percent people fed", "million dry caloric tons", "kcals per person per day"]
BASES_F = ["thousand tons", "million tons", "billion people fed", "percent people fed", "effective kcals per person per day",
           "grams per person per day"]
SFX = ["", " each month", " per month"]


def settings(rng):
    if rng.random() < 0.3:
        return (2100.0, 47.0, 51.0, rng.choice([7.8e9, 4.5e7, 3.3e8, 1.0e4]))
    return (rng.uniform(500, 4000), rng.uniform(5, 150), rng.uniform(5, 150), 10 ** rng.uniform(2, 10.5))


def set_conv(st, inc_f=True, inc_p=True):
    from src.food_system.food import Food
    from src.food_system.unit_conversions import UnitConversions
    c = UnitConversions()
    c.set_nutrition_requirements(kcals_daily=st[0], fat_daily=st[1], protein_daily=st[2], include_fat=inc_f, include_protein=inc_p, population=st[3])
    Food.conversions = c
    return Food


def anchors(ctx, st, case, Food=None):
    """anchor identities, helpers and the three forms for the setting in force (a function of the current setting only)"""
    if Food is None:
        Food = set_conv(st)
    cv = Food.conversions
    need = Food(cv.billion_kcals_needed, cv.thou_tons_fat_needed, cv.thou_tons_protein_needed)
    pf = need.in_units_percent_fed()
    if not all(close(float(v), 100.0, 1e-9, 0) for v in (pf.kcals, pf.fat, pf.protein)):
        ctx.violation("anchor-percent", "monthly requirement does not convert to 100 percent fed: %r" % ([pf.kcals, pf.fat, pf.protein],), case)
    # the same anchor with the requirement written in DIFFERENT units per nutrient (fat in thousand tons, protein in million tons, and the other way round)
    for fu, pu, ff_, pf_ in (("thousand tons", "million tons", 1.0, 1e-3), ("million tons", "thousand tons", 1e-3, 1.0)):
        mixed = Food(cv.billion_kcals_needed, cv.thou_tons_fat_needed * ff_, cv.thou_tons_protein_needed * pf_, "billion kcals", fu, pu)
        pm = mixed.in_units_percent_fed()
        if not all(close(float(v), 100.0, 1e-9, 0) for v in (pm.kcals, pm.fat, pm.protein)):
            ctx.violation("anchor-percent-mixed-units", "the monthly requirement written as (billion kcals, %s, %s) does not convert to 100 percent fed: %r" % (
                fu, pu, [float(pm.kcals), float(pm.fat), float(pm.protein)]), dict(case, units=["billion kcals", fu, pu]))
        gm = mixed.in_units("kcals per person per day", "grams per person per day", "effective kcals per person per day")
        if not (close(float(gm.fat), st[1], 1e-9, 0) and close(float(gm.protein), st[0], 1e-9, 0)):
            ctx.violation("anchor-daily-mixed-units", "the monthly requirement written as (billion kcals, %s, %s) converts to %r g fat and %r effective kcals of protein per person per day "
                          "(daily requirements %r g, %r kcals)" % (fu, pu, float(gm.fat), float(gm.protein), st[1], st[0]), dict(case, units=["billion kcals", fu, pu]))
    bf = need.in_units_billions_fed()
    if not all(close(float(v), st[3] / 1e9, 1e-9, 0) for v in (bf.kcals, bf.fat, bf.protein)):
        ctx.violation("anchor-billions", "monthly requirement does not convert to population/1e9 billions fed", case)
    ke = need.in_units_kcals_equivalent()
    if not all(close(float(v), st[0], 1e-9, 0) for v in (ke.kcals, ke.fat, ke.protein)):
        ctx.violation("anchor-daily", "monthly requirement does not convert to the daily kcal requirement (kcals equivalent)", case)
    kg = need.in_units_kcals_grams_grams_per_person()
    if not (close(float(kg.kcals), st[0], 1e-9, 0) and close(float(kg.fat), st[1], 1e-9, 0) and close(float(kg.protein), st[2], 1e-9, 0)):
        ctx.violation("anchor-grams", "monthly requirement does not convert to daily kcals/grams per person", case)
    bk = pf.in_units_bil_kcals_thou_tons_thou_tons_per_month()
    if not (close(float(bk.kcals), cv.billion_kcals_needed, 1e-9, 0) and close(float(bk.fat), cv.thou_tons_fat_needed, 1e-9, 0)):
        ctx.violation("anchor-back", "100 percent does not convert back to the monthly requirement", case)
    tabs = [need.get_kcal_multipliers(), need.get_fat_multipliers(), need.get_protein_multipliers()]
    for t, bases in zip(tabs, (BASES_K, BASES_F, BASES_F)):
        for b in bases:
            vals = [t.get(b + s) for s in SFX]
            if None in vals or not (close(vals[0], vals[1], 1e-12, 0) and close(vals[0], vals[2], 1e-12, 0)):
                ctx.violation("forms-differ", "the three forms of %r carry different multipliers %r" % (b, vals), dict(case, unit=b))
    ctx.case(("anchor", st, case.get("position", 0), json.dumps(case.get("history", []))), sample={"setting": st, "anchor": "requirement -> 100 percent fed"})


def correspondence(ctx):
    rng = ctx.rng
    # 1. table keys: translator output vs the live dictionaries
    st0 = settings(rng)
    Food = set_conv(st0)
    f0 = Food(1.0, 1.0, 1.0)
    live = [list(f0.get_kcal_multipliers().keys()), list(f0.get_fat_multipliers().keys()), list(f0.get_protein_multipliers().keys())]
    rd = Reader(ctx.lean(["units.names"])[0])
    model_names = [rd.strs(), rd.strs(), rd.strs()]
    if live != model_names:
        ctx.disagree("unit-names", {}, live, model_names)
    # 2. multipliers and Conv fields numerically, several settings
    nset = ctx.budget(20, 300)
    sets = [settings(rng) for _ in range(nset)]
    lines, meta = [], []
    for st in sets:
        lines.append("units.conv %s" % " ".join(f2b(x) for x in st))
        meta.append(("conv", st))
        for t in range(3):
            for u in live[t] + ["bogus unit", "billion kcals  each month"]:
                lines.append("units.mult %d %s %s" % (t, " ".join(f2b(x) for x in st), enc_str(u)))
                meta.append(("mult", st, t, u))
    outs = ctx.lean(lines)
    cache = {}
    for (m, o) in zip(meta, outs):
        st = m[1]
        if st not in cache:
            Food = set_conv(st)
            f = Food(1.0, 1.0, 1.0)
            cache[st] = (Food, [f.get_kcal_multipliers(), f.get_fat_multipliers(), f.get_protein_multipliers()])
            Food_, tabs = cache[st]
            cv = Food_.conversions
            cache[st] += ([cv.days_in_month, cv.kcals_monthly, cv.fat_monthly, cv.protein_monthly, cv.billion_kcals_needed,
                           cv.thou_tons_fat_needed, cv.thou_tons_protein_needed, cv.population],)
        if m[0] == "conv":
            got = Reader(o).floats()
            want = [float(x) for x in cache[st][2]]
            if not wire.close_list(got, want, 1e-12, 0):
                ctx.disagree("mkConv", {"setting": st}, want, got)
        else:
            _, st, t, u = m
            tab = cache[st][1][t]
            rd = Reader(o)
            tag = rd.tok()
            mv = rd.float() if tag == "some" else None
            iv = float(tab[u]) if u in tab else None
            if (mv is None) != (iv is None) or (mv is not None and not close(mv, iv, 1e-12, 0)):
                ctx.disagree("multiplier", {"setting": st, "table": t, "unit": u}, iv, mv)
            ctx.case(("mult", st, t, u), nontrivial=iv not in (None, 1.0))
    # 3. executable property on the implementation: round trip, via, forms, anchors, shape — through in_units itself
    npairs = ctx.budget(200, 5000)
    lines, meta = [], []
    for _ in range(npairs):
        st = rng.choice(sets)
        Food = set_conv(st)
        sfx = rng.choice(SFX)
        fk, ff, fp = rng.choice(BASES_K), rng.choice(BASES_F), rng.choice(BASES_F)
        tk, tf, tp = rng.choice(BASES_K), rng.choice(BASES_F), rng.choice(BASES_F)
        vk, vf, vp = rng.choice(BASES_K), rng.choice(BASES_F), rng.choice(BASES_F)
        if sfx == " each month":
            n = rng.randint(1, 12)
            vals = [[10 ** rng.uniform(-3, 6) * rng.choice([0, 1, 1, 1]) for _ in range(n)] for _ in range(3)]
            x = Food(list(vals[0]), list(vals[1]), list(vals[2]), fk + sfx, ff + sfx, fp + sfx)
        else:
            vals = [10 ** rng.uniform(-3, 6) for _ in range(3)]
            x = Food(vals[0], vals[1], vals[2], fk + sfx, ff + sfx, fp + sfx)
        y = x.in_units(tk, tf, tp)
        back = y.in_units(fk, ff, fp)
        via = x.in_units(vk, vf, vp).in_units(tk, tf, tp)
        case = {"setting": st, "from": [fk + sfx, ff + sfx, fp + sfx], "to": [tk, tf, tp], "via": [vk, vf, vp], "values": vals}

        def arr(fd):
            return [np.atleast_1d(np.asarray(a, dtype=float)) for a in (fd.kcals, fd.fat, fd.protein)]
        for a, b in zip(arr(back), arr(x)):
            if a.shape != b.shape or not np.allclose(a, b, rtol=1e-9, atol=0):
                ctx.violation("round-trip", "converting %s -> %s and back does not return the original" % (case["from"], case["to"]), case)
                break
        for a, b in zip(arr(via), arr(y)):
            if a.shape != b.shape or not np.allclose(a, b, rtol=1e-9, atol=0):
                ctx.violation("via", "converting through %s differs from converting directly" % (case["via"],), case)
                break
        if y.units != [tk + sfx, tf + sfx, tp + sfx] or [y.kcals_units, y.fat_units, y.protein_units] != y.units:
            ctx.violation("form", "form (total/each month/per month) not preserved: %s" % (y.units,), case)
        if np.ndim(y.kcals) != np.ndim(x.kcals) or np.shape(y.kcals) != np.shape(x.kcals):
            ctx.violation("shape", "scalar/series shape not preserved", case)
        # model: factors
        lines.append("units.inUnits %s %s %s %s %s %s %s" % (" ".join(f2b(v) for v in st), enc_str(fk + sfx), enc_str(ff + sfx), enc_str(fp + sfx),
                                                             enc_str(tk), enc_str(tf), enc_str(tp)))
        meta.append((case, x, y))
        ctx.case(("inunits", st, fk, ff, fp, tk, tf, tp, sfx), nontrivial=(fk != tk or ff != tf or fp != tp),
                 sample={"from": case["from"], "to": case["to"], "values": vals if sfx != " each month" else [v[:3] for v in vals]})
        ctx.count("form:" + (sfx.strip() or "total"))
    # unknown unit is rejected by both
    st = sets[0]
    Food = set_conv(st)
    for bad in [("bogus", "thousand tons", "thousand tons"), ("billion kcals", "bogus", "thousand tons")]:
        try:
            Food(1.0, 1.0, 1.0).in_units(*bad)
            impl = "accepted"
        except AssertionError:
            impl = "assert"
        o = ctx.lean(["units.inUnits %s %s %s %s %s %s %s" % (" ".join(f2b(v) for v in st), enc_str("billion kcals"), enc_str("thousand tons"),
                                                              enc_str("thousand tons"), enc_str(bad[0]), enc_str(bad[1]), enc_str(bad[2]))])[0]
        if (impl == "assert") != (o == "none"):
            ctx.disagree("unknown-unit", {"to": bad}, impl, o)
        if impl != "assert":
            ctx.violation("unknown-unit-accepted", "in_units accepted an unknown unit %r" % (bad,), {"to": bad})
        ctx.count("malformed:unknown-unit")
    outs = ctx.lean(lines) if lines else []
    for (case, x, y), o in zip(meta, outs):
        rd = Reader(o)
        if rd.tok() != "some":
            ctx.disagree("inUnits", case, y.units, o)
            continue
        nu = [rd.str(), rd.str(), rd.str()]
        fa = [rd.float(), rd.float(), rd.float()]
        if nu != y.units:
            ctx.disagree("inUnits.labels", case, y.units, nu)
        for f, a, b in zip(fa, (x.kcals, x.fat, x.protein), (y.kcals, y.fat, y.protein)):
            if not np.allclose(np.asarray(a, dtype=float) * f, np.asarray(b, dtype=float), rtol=1e-9, atol=0):
                ctx.disagree("inUnits.values", case, np.asarray(b).tolist(), (np.asarray(a) * f).tolist())
                break
    # 4. anchors and forms on the implementation, and the five helpers
    for st in sets[: ctx.budget(10, 100)]:
        anchors(ctx, st, {"setting": st})
    # 5. histories in one process: settings that share some of (kcals, fat, protein, population) with the one before - every identity above is a
    #    function of the setting in force, whatever was in force earlier (a table or a factor kept from an earlier setting shows here)
    lines, meta = [], []
    for h in range(ctx.budget(6, 60)):
        base = list(settings(rng))
        hist = [tuple(base)]
        for _ in range(rng.randint(2, 5)):
            nxt = list(hist[-1] if rng.random() < 0.7 else base)
            for j in rng.sample(range(4), rng.choice([1, 1, 1, 2])):
                nxt[j] = settings(rng)[j]
            hist.append(tuple(nxt))
        if rng.random() < 0.5:
            hist.append(hist[0])
        for pos, st in enumerate(hist):
            Food = set_conv(st)
            f = Food(1.0, 1.0, 1.0)
            tabs = [f.get_kcal_multipliers(), f.get_fat_multipliers(), f.get_protein_multipliers()]
            case = {"setting": st, "history": [list(x) for x in hist[:pos]], "position": pos}
            anchors(ctx, st, case, Food=Food)
            for t in range(3):
                for u in live[t]:
                    lines.append("units.mult %d %s %s" % (t, " ".join(f2b(x) for x in st), enc_str(u)))
                    meta.append((case, t, u, float(tabs[t][u]) if u in tabs[t] else None))
            ctx.count("history-settings")
    for (case, t, u, iv), o in zip(meta, ctx.lean(lines) if lines else []):
        rd = Reader(o)
        mv = rd.float() if rd.tok() == "some" else None
        if (mv is None) != (iv is None) or (mv is not None and not close(mv, iv, 1e-12, 0)):
            ctx.violation("stale-multiplier", "after the settings %r the multiplier of %r under %r is %r; for that setting alone it is %r" % (
                case["history"], u, case["setting"], iv, mv), dict(case, table=t, unit=u))



def search(ctx):
    correspondence(ctx)


def replay(ctx, rep):
    n0 = len(ctx.violations)
    correspondence(ctx)
    return len(ctx.violations) > n0, ctx.violations[n0:n0 + 3]
