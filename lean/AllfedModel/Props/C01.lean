import AllfedModel.Model.PhysSpec
import AllfedModel.Proofs.LP
/-!
# C01 — reported allocations never use food that does not exist

`buildLP` (Model/AllocLP.lean) is compared row by row with the PuLP model the real `Optimizer`
builds on every check run; the theorems here are about **every** feasible point of `buildLP`, for
**every** input (any horizon ≥ 2 months, any supplies, any option flags), in any ordered field.
The reported allocation is feasible for the first-stage rows plus the tie-breaking rows of the
later solves, so `extra_rows_preserve` makes the main theorem apply to it.
-/
namespace Allfed.C01
open Allfed.LP Allfed.AllocLP Allfed.PhysSpec

variable {K : Type} [Field K] [LinearOrder K] [IsStrictOrderedRing K]

/-- Every feasible point of the LP the code builds is physically feasible in the sense of
    `physCore`: non-negative; cumulative stored-food and crop use within stock / harvest so far;
    meat within slaughter (month by month without storage; in total and under the monthly cap
    with storage); SCP and sugar within monthly output; seaweed ledger and bounds; feed/biofuel
    equal to the charge (human rounds) or within ceiling and never rising (feed round); crops
    (and stored food where storage between years is allowed) fully used by the last month. -/
theorem feasible_is_physical (i : Inp K) (kind : Kind) (x : Var → K) (hN : 2 ≤ i.nmonths)
    (h : Feasible (buildLP i kind) x) : ∀ e ∈ physCore i kind x, e.value ≤ 0 :=
  Proofs.LP.feasible_is_physical i kind x hN h

/-- adding rows (the `0.99995·z*` floors and the secondary objectives) only shrinks the feasible set -/
theorem extra_rows_preserve (rows extra : List (Row K)) (x : Var → K)
    (h : Feasible (rows ++ extra) x) : Feasible rows x :=
  Proofs.LP.extra_rows_preserve rows extra x h

/-- the row evaluator the driver runs at `Float` is the feasibility predicate of the theorems -/
theorem rowExcess_iff (x : Var → K) (r : Row K) : r.holds x ↔ ∀ e ∈ rowExcess x r, e.value ≤ 0 :=
  Proofs.LP.rowExcess_iff x r

/-- without storage of meat the monthly cap gives the cumulative statement of the property -/
theorem meat_cumulative_without_storage (i : Inp K) (kind : Kind) (x : Var → K)
    (h : Feasible (buildLP i kind) x) (hm : i.addMeat = true) (hs : i.storeBetweenYears = false)
    (m : Nat) (hlt : m < i.nmonths) :
    cum (meatUse i x) m ≤ cum (at' i.slaughtered) m :=
  Proofs.LP.meat_cumulative_without_storage i kind x h hm hs m hlt

/-! ## what the code does NOT enforce (known findings, proved on concrete instances)

Full statement of the property for meat: `∀ m, cum (meatUse i x) m ≤ cum (at' i.slaughtered) m`.
With storage between years the code only has `meatUse m ≤ maxCulled m` (the *running* slaughter
total) per month and the overall total: meat can be eaten before it is slaughtered (D10).
In the regimes without storage between years nothing forces the initial stock to be eaten (D14). -/

/-- D10: a feasible point of the code's LP that eats meat before it is slaughtered.
    The witness has honest data: non-negative slaughter, the monthly cap `maxCulled` is the running
    slaughter total, `meatSummed` is the total of the horizon.
    (Statement corrected: the side condition on `maxCulled` was first written `∀ m`, without
    `m < i.nmonths`.  Past the end of the series `at' i.maxCulled m = 0` while
    `cum (at' i.slaughtered) m` stays at the horizon total, so with non-negative slaughter that
    form forces the total to be 0 and only a series with a negative entry could satisfy it.
    The months of the horizon are what the code reads; the two extra conjuncts make the honesty
    of the witness part of the statement.) -/
theorem meat_gap_counterexample :
    ∃ (i : Inp ℚ) (x : Var → ℚ), 2 ≤ i.nmonths ∧ Feasible (buildLP i .toHumans) x ∧
      (∀ s ∈ i.slaughtered, 0 ≤ s) ∧
      (∀ m, m < i.nmonths → at' i.maxCulled m = cum (at' i.slaughtered) m) ∧
      i.meatSummed = cum (at' i.slaughtered) (i.nmonths - 1) ∧
      ∃ e ∈ physGap i .toHumans x, 0 < e.value :=
  Proofs.LP.meat_gap_counterexample

/-- D14: a feasible point of the code's LP (no storage between years) that leaves stored food uneaten -/
theorem stored_gap_counterexample :
    ∃ (i : Inp ℚ) (x : Var → ℚ), 2 ≤ i.nmonths ∧ Feasible (buildLP i .toHumans) x ∧
      ∃ e ∈ physGap i .toHumans x, 0 < e.value ∧ e.clause = "stored-full-use-no-storage" :=
  Proofs.LP.stored_gap_counterexample

/-- non-vacuity: the hypotheses of `feasible_is_physical` are satisfiable by a non-trivial instance
    (3 months, stored food + crops + meat, a feasible point that eats something every month) -/
theorem feasible_nonvacuous :
    ∃ (i : Inp ℚ) (x : Var → ℚ), 2 ≤ i.nmonths ∧ i.addStored = true ∧ i.addOutdoor = true ∧ i.addMeat = true ∧
      Feasible (buildLP i .toHumans) x ∧ 0 < x .objective :=
  Proofs.LP.feasible_nonvacuous

end Allfed.C01
