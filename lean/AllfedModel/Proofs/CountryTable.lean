import AllfedModel.Model.CountryTable
import Mathlib.Algebra.Order.Field.Basic
import Mathlib.Algebra.Order.Field.Rat
import Mathlib.Algebra.Order.Field.Power
import Mathlib.Algebra.BigOperators.Group.List.Basic
import Mathlib.Data.List.Forall2
import Mathlib.Data.List.Perm.Basic
import Mathlib.Data.List.Range
import Mathlib.Data.Rat.Cast.Order
import Mathlib.Tactic.Linarith
import Mathlib.Tactic.Ring
import Mathlib.Tactic.NormNum
import Mathlib.Tactic.Positivity
/-!
# Meaning of the exact-decimal row checker of `Model/CountryTable.lean` in ℚ (property C17)

`rowOk r = true` (what the generated per-row `decide +kernel` theorems establish) implies the
statement `RowSpec r` about the rational numbers the cells denote.
-/
namespace Allfed.Proofs.CountryTable
open Allfed.CountryTable

/-- the rational number an exact decimal denotes -/
def toRat (d : Dec) : ℚ := (d.1 : ℚ) * (10 : ℚ) ^ d.2

theorem ten_pos (e : ℤ) : (0 : ℚ) < (10 : ℚ) ^ e := by positivity

theorem scale_fst (a b : Dec) : toRat a = ((Dec.scale a b).1 : ℚ) * (10 : ℚ) ^ (min a.2 b.2) := by
  unfold toRat Dec.scale
  simp only
  have h : 0 ≤ a.2 - min a.2 b.2 := by have := min_le_left a.2 b.2; omega
  have hn : ((a.2 - min a.2 b.2).toNat : ℤ) = a.2 - min a.2 b.2 := Int.toNat_of_nonneg h
  push_cast
  rw [mul_assoc, ← zpow_natCast (10 : ℚ), hn, ← zpow_add₀ (by norm_num : (10 : ℚ) ≠ 0)]
  congr 2
  ring

theorem scale_snd (a b : Dec) : toRat b = ((Dec.scale a b).2 : ℚ) * (10 : ℚ) ^ (min a.2 b.2) := by
  unfold toRat Dec.scale
  simp only
  have h : 0 ≤ b.2 - min a.2 b.2 := by have := min_le_right a.2 b.2; omega
  have hn : ((b.2 - min a.2 b.2).toNat : ℤ) = b.2 - min a.2 b.2 := Int.toNat_of_nonneg h
  push_cast
  rw [mul_assoc, ← zpow_natCast (10 : ℚ), hn, ← zpow_add₀ (by norm_num : (10 : ℚ) ≠ 0)]
  congr 2
  ring

theorem le_iff (a b : Dec) : Dec.le a b = true ↔ toRat a ≤ toRat b := by
  unfold Dec.le
  rw [decide_eq_true_iff, scale_fst a b, scale_snd a b, mul_le_mul_iff_of_pos_right (ten_pos _)]
  exact Int.cast_le.symm

theorem lt_iff (a b : Dec) : Dec.lt a b = true ↔ toRat a < toRat b := by
  unfold Dec.lt
  rw [decide_eq_true_iff, scale_fst a b, scale_snd a b, mul_lt_mul_iff_of_pos_right (ten_pos _)]
  exact Int.cast_lt.symm

theorem add_spec (a b : Dec) : toRat (Dec.add a b) = toRat a + toRat b := by
  rw [scale_fst a b, scale_snd a b]
  unfold Dec.add toRat
  simp only
  push_cast
  ring

theorem sum_spec (l : List Dec) : toRat (Dec.sum l) = (l.map toRat).sum := by
  induction l with
  | nil => simp [Dec.sum, toRat]
  | cons a t ih =>
    have : Dec.sum (a :: t) = Dec.add a (Dec.sum t) := rfl
    rw [this, add_spec, ih]
    simp

/-! ## what each column group demands of the number in the cell -/

def CellSpec : Kind → ℚ → Prop
  | .pop, v => 10000 < v ∧ v < 10000000000
  | .qty, v => 0 ≤ v
  | .frac, v => 0 ≤ v ∧ v ≤ 1
  | .season, v => 0 ≤ v ∧ v ≤ 1
  | .cropReduc, v => -1 - 1 / 100000000 ≤ v
  | .grassReduc, v => -1 ≤ v
  | .growth, v => -100 ≤ v
  | .free, _ => True

theorem c_zero : toRat (0, 0) = 0 := by simp [toRat]
theorem c_one : toRat (1, 0) = 1 := by simp [toRat]
theorem c_1e4 : toRat (1, 4) = 10000 := by norm_num [toRat]
theorem c_1e10 : toRat (1, 10) = 10000000000 := by norm_num [toRat]
theorem c_negOne : toRat (-1, 0) = -1 := by simp [toRat]
theorem c_neg100 : toRat (-100, 0) = -100 := by simp [toRat]
theorem c_cropTol : toRat (-100000001, -8) = -1 - 1 / 100000000 := by norm_num [toRat]
theorem c_seasonLo : toRat (999999, -6) = 1 - 1 / 1000000 := by norm_num [toRat]
theorem c_seasonHi : toRat (1000001, -6) = 1 + 1 / 1000000 := by norm_num [toRat]

theorem cellOk_spec (k : Kind) (d : Dec) (h : cellOk k d = true) : CellSpec k (toRat d) := by
  cases k <;> simp only [cellOk, Bool.and_eq_true, le_iff, lt_iff] at h <;> simp only [CellSpec]
  · rw [c_1e4, c_1e10] at h; exact h
  · rw [c_zero] at h; exact h
  · rw [c_zero, c_one] at h; exact h
  · rw [c_zero, c_one] at h; exact h
  · rw [c_cropTol] at h; exact h
  · rw [c_negOne] at h; exact h
  · rw [c_neg100] at h; exact h

theorem cellsOk_spec (ks : List Kind) (cs : List Dec) (h : cellsOk ks cs = true) :
    List.Forall₂ (fun k c => CellSpec k (toRat c)) ks cs := by
  induction ks generalizing cs with
  | nil =>
    cases cs with
    | nil => exact List.Forall₂.nil
    | cons c t => simp [cellsOk] at h
  | cons k ks ih =>
    cases cs with
    | nil => simp [cellsOk] at h
    | cons c cs =>
      simp only [cellsOk, Bool.and_eq_true] at h
      exact List.Forall₂.cons (cellOk_spec k c h.1) (ih cs h.2)

/-- the statement about one row, in ℚ -/
structure RowSpec (r : Row) : Prop where
  iso3_present : r.iso3 ≠ ""
  name_present : r.name ≠ ""
  /-- one cell per numeric column, each within the range of its column group -/
  cells : List.Forall₂ (fun k c => CellSpec k (toRat c)) kinds r.cells
  /-- the twelve seasonality shares sum to 1 within `1e-6` -/
  season : |((seasonCells kinds r.cells).map toRat).sum - 1| ≤ 1 / 1000000

theorem rowOk_spec (r : Row) (h : rowOk r = true) : RowSpec r := by
  unfold rowOk at h
  simp only [Bool.and_eq_true, bne_iff_ne, ne_eq] at h
  obtain ⟨⟨⟨h1, h2⟩, h3⟩, h4⟩ := h
  refine ⟨h1, h2, cellsOk_spec _ _ h3, ?_⟩
  unfold seasonOk at h4
  simp only [Bool.and_eq_true, le_iff, sum_spec, c_seasonLo, c_seasonHi] at h4
  rw [abs_le]
  constructor <;> linarith [h4.1, h4.2]

theorem cells_length (r : Row) (h : RowSpec r) : r.cells.length = kinds.length :=
  (List.Forall₂.length_eq h.cells).symm

/-! ## permutations given by positions -/

theorem map_getD_range (l : List String) : (List.range l.length).map (fun i => l.getD i "") = l := by
  apply List.ext_getElem
  · simp
  · intro i h1 h2
    simp [List.getD_eq_getElem?_getD, h2]

/-- if `expected` lists the table's codes at positions `pos`, and `pos` is a permutation of
    `0 … n-1`, then `expected` is a permutation of the table's codes -/
theorem perm_of_positions (codes expected : List String) (pos : List Nat)
    (h1 : expected = pos.map (fun i => codes.getD i ""))
    (h2 : pos.Perm (List.range codes.length)) : expected.Perm codes := by
  rw [h1]
  have := List.Perm.map (fun i => codes.getD i "") h2
  rwa [map_getD_range] at this

end Allfed.Proofs.CountryTable
