import AllfedModel.Model.Certificate
import AllfedModel.Model.Report
import AllfedModel.Proofs.Certificate
import AllfedModel.Model.AllocSpec
import AllfedModel.Proofs.Completeness
/-!
# C02 — percent fed is the true optimum of the allocation problem

What is proved for all inputs: the objective of the LP the code builds is *sound* (never exceeds
what the allocation really feeds in its worst month / the weighted feed-and-biofuel total), and a
certificate checker that turns any vector of row multipliers into a valid upper bound of the
objective.  What is certified per instance (by the check, in exact rational arithmetic with this
checker): the value CBC reported is within 10⁻⁴ of that upper bound.
Completeness (human-maximising rounds): the feasible points of `buildLP` are exactly the physically
feasible allocations of `Model/AllocSpec.lean` (`PhysFeasible`, written from the supplies and the
decision quantities only), and the objective values the LP can reach are exactly the numbers between
0 and the worst-month percentage of such an allocation — so the LP's optimum is the true optimum.
-/
namespace Allfed.C02
open Allfed.LP Allfed.AllocLP Allfed.Certificate Allfed.PhysSpec Allfed.AllocSpec Allfed.Report

variable {K : Type} [Field K] [LinearOrder K] [IsStrictOrderedRing K]

/-! ## soundness of the objective -/

/-- human-maximising rounds: the objective is at most every month's percent fed -/
theorem objective_le_every_month (i : Inp K) (x : Var → K) (h : Feasible (buildLP i .toHumans) x)
    (m : Nat) (hm : m < i.nmonths) : x .objective ≤ x (.mv .consumedKcals m) :=
  Proofs.Certificate.objective_le_every_month i x h m hm

/-- … and a month's percent fed is what people are really given that month (allocations to humans
    plus milk, greenhouse and fish), relative to the monthly requirement -/
theorem consumed_is_percent_of_need (i : Inp K) (x : Var → K) (h : Feasible (buildLP i .toHumans) x)
    (m : Nat) (hm : m < i.nmonths) :
    x (.mv .consumedKcals m) =
      (X x i.addStored .sfHumans m + X x i.addOutdoor .cropHumans m + X x i.addSeaweed .swHumans m * i.seaweedKcals
        + at' i.milk m + X x i.addMeat .meatEaten m + X x i.addCs .csHumans m + X x i.addScp .scpHumans m
        + at' i.greenhouse m + at' i.fish m) / i.billionKcalsNeeded * 100 :=
  Proofs.Certificate.consumed_is_percent_of_need i x h m hm

/-- feed-maximising round: the objective is at most the weighted total (feed twice biofuel) -/
theorem objective_le_weighted_total (i : Inp K) (x : Var → K) (h : Feasible (buildLP i .toAnimals) x) :
    x .objective ≤ 2 / 3 * (List.range i.nmonths).foldl (fun acc m => acc + feedTotal i x m) 0
                  + (List.range i.nmonths).foldl (fun acc m => acc + biofuelTotal i x m) 0 / 3 :=
  Proofs.Certificate.objective_le_weighted_total i x h

/-! ## the certificate checker is sound (generic LP) -/

theorem normalise_eval (x : Var → K) (l : List (Var × K)) : Aff.sumTerms x (normalise l) = Aff.sumTerms x l :=
  Proofs.Certificate.normalise_eval x l

/-- weak duality with residual absorption: for ANY multipliers `y` -/
theorem dualBound_sound (rows : List (Row K)) (y : List K) (ub : Var → Option K) (b : K) (x : Var → K)
    (hx : Feasible rows x) (hub : ∀ v u, ub v = some u → x v ≤ u)
    (hb : dualBound rows y ub = some b) : x .objective ≤ b :=
  Proofs.Certificate.dualBound_sound rows y ub b x hx hub hb

/-- the variable bounds used by the checker hold at every feasible point of the code's LP -/
theorem ubOf_valid (i : Inp K) (kind : Kind) (x : Var → K) (hw : WellFormed i)
    (h : Feasible (buildLP i kind) x) : ∀ v u, ubOf i kind v = some u → x v ≤ u :=
  Proofs.Certificate.ubOf_valid i kind x hw h

/-- the per-instance certificate: whatever the solver's duals are, the number the checker prints
    bounds the objective of every feasible point of the LP the code builds -/
theorem certificate_sound (i : Inp K) (kind : Kind) (y : List K) (b : K) (hw : WellFormed i)
    (hb : dualBound (buildLP i kind) y (ubOf i kind) = some b) :
    ∀ x, Feasible (buildLP i kind) x → x .objective ≤ b :=
  fun x hx => dualBound_sound _ y _ b x hx (ubOf_valid i kind x hw hx) hb

/-- non-vacuity of the checker: a two-row LP whose exact optimum it certifies -/
example : dualBound
    ([⟨"cap", Aff.var (.mv .scpHumans 0), .le, Aff.k (5 : ℚ)⟩,
      ⟨"obj", Aff.var .objective, .le, Aff.var (.mv .scpHumans 0)⟩] : List (Row ℚ))
    [1, 1] (fun _ => none) = some 5 := by decide +kernel

/-! ## completeness: the LP says exactly what is physically possible (human-maximising rounds)

`Alloc` holds the decision quantities only (per month: stored food, crops, SCP, sugar, seaweed to
people / feed / biofuel, meat eaten, seaweed biomass and farm area); `PhysFeasible i a` is written
from the supplies: non-negativity; cumulative stored-food use within the stock (used up by the
last month with storage between years; nothing drawn after month 12 without); cumulative crop use
within the harvest so far and equal to it at the end; meat within total and running slaughter
(storage) or the month's slaughter (no storage); SCP and sugar within monthly output; the seaweed
bounds and ledger; feed and biofuel equal to the charge; percent fed non-negative; the intake caps.
`pct i a m` is the percent of the monthly need people are given in month `m`.
Hypotheses of the completeness direction: wastes of stored food, crops and meat below 100 %
(otherwise the gross-up `1/(1 − w/100)` is not positive and the LP's sign constraints on
`Crops_Food_Consumed`, `Stored_Food_Start_0`, `Meat_Start_0` are no longer physical ones). -/

/-- soundness: the allocation inside a feasible point is physically feasible and the objective is
    at most its worst month -/
theorem sound_humans (i : Inp K) (x : Var → K) (hN : 2 ≤ i.nmonths)
    (h : Feasible (buildLP i .toHumans) x) :
    PhysFeasible i (allocOf x) ∧ x .objective ≤ minOver (pct i (allocOf x)) i.nmonths :=
  Proofs.Completeness.sound_humans i x hN h

/-- completeness: every physically feasible allocation is the allocation of a feasible point of the
    LP whose objective is the allocation's worst month -/
theorem complete_humans (i : Inp K) (a : Alloc K) (hN : 2 ≤ i.nmonths)
    (hw : i.wStored < 100 ∧ i.wCrop < 100 ∧ i.wMeat < 100) (ha : PhysFeasible i a) :
    ∃ x, Feasible (buildLP i .toHumans) x ∧ allocOf x = a ∧
      x .objective = minOver (pct i a) i.nmonths :=
  Proofs.Completeness.complete_humans i a hN hw ha

/-- the objective values the LP can achieve are exactly the numbers between 0 and the worst month
    of a physically feasible allocation -/
theorem lp_optimum_is_true_optimum (i : Inp K) (hN : 2 ≤ i.nmonths)
    (hw : i.wStored < 100 ∧ i.wCrop < 100 ∧ i.wMeat < 100) (z : K) :
    (∃ x, Feasible (buildLP i .toHumans) x ∧ x .objective = z) ↔
    (∃ a, PhysFeasible i a ∧ 0 ≤ z ∧ z ≤ minOver (pct i a) i.nmonths) :=
  Proofs.Completeness.lp_optimum_is_true_optimum i hN hw z

/-- hence a certified bound of the LP's objective (`certificate_sound`) bounds the percent fed of
    every physically feasible allocation, and conversely -/
theorem lp_bound_iff_true_bound (i : Inp K) (hN : 2 ≤ i.nmonths)
    (hw : i.wStored < 100 ∧ i.wCrop < 100 ∧ i.wMeat < 100) (b : K) :
    (∀ x, Feasible (buildLP i .toHumans) x → x .objective ≤ b) ↔
    (∀ a, PhysFeasible i a → minOver (pct i a) i.nmonths ≤ b) :=
  Proofs.Completeness.lp_bound_iff_true_bound i hN hw b

/-- non-vacuity: a physically feasible allocation exists for a non-trivial instance (3 months,
    stored food + crops + meat) and its worst month is positive -/
example : ∃ (i : Inp ℚ) (a : Alloc ℚ), 2 ≤ i.nmonths ∧ PhysFeasible i a ∧ 0 < minOver (pct i a) i.nmonths := by
  obtain ⟨i, x, hN, -, -, -, hx, hpos⟩ := Proofs.LP.feasible_nonvacuous
  obtain ⟨h1, h2⟩ := sound_humans i x hN hx
  exact ⟨i, allocOf x, hN, h1, lt_of_lt_of_le hpos h2⟩

/-! ## completeness, feed-maximising round

`PhysFeasibleFeed i a`: the supply clauses of `PhysFeasible` without the obligation to use stocks
up; feed and biofuel totals within the ceilings `maxFeed`/`maxBiofuel` and never above the month
before; people's consumption of each of the LP foods pinned inside the tolerance band around
what the human-maximising round gave them (`Pinned`: ±0.01 % below 10 million people, ±0.001 %
otherwise — exactly `pinnedRows`), seaweed from below only (`PinnedLower`, `pinnedRowsLower`: since
the repair of C16 the row `Seaweed_Max_Requirement` no longer exists); feed/biofuel share caps of the resilient foods relative to
`i.feed`/`i.biofuel` as the code has them; no percent-fed variable, no human intake caps.
`feedValue i a = 2/3·Σ feed + Σ biofuel / 3` is what the round maximises. -/

theorem sound_animals (i : Inp K) (x : Var → K) (h : Feasible (buildLP i .toAnimals) x) :
    PhysFeasibleFeed i (allocOf x) ∧ x .objective ≤ feedValue i (allocOf x) :=
  Proofs.Completeness.sound_animals i x h

theorem complete_animals (i : Inp K) (a : Alloc K)
    (hw : i.wStored < 100 ∧ i.wCrop < 100 ∧ i.wMeat < 100) (ha : PhysFeasibleFeed i a) :
    ∃ x, Feasible (buildLP i .toAnimals) x ∧ allocOf x = a ∧ x .objective = feedValue i a :=
  Proofs.Completeness.complete_animals i a hw ha

/-- the objective values the feed-maximising LP can achieve are exactly the numbers between 0 and
    the weighted total of a physically feasible allocation -/
theorem feed_optimum_is_true_optimum (i : Inp K)
    (hw : i.wStored < 100 ∧ i.wCrop < 100 ∧ i.wMeat < 100) (z : K) :
    (∃ x, Feasible (buildLP i .toAnimals) x ∧ x .objective = z) ↔
    (∃ a, PhysFeasibleFeed i a ∧ 0 ≤ z ∧ z ≤ feedValue i a) :=
  Proofs.Completeness.feed_optimum_is_true_optimum i hw z

theorem feed_bound_iff_true_bound (i : Inp K)
    (hw : i.wStored < 100 ∧ i.wCrop < 100 ∧ i.wMeat < 100) (b : K) :
    (∀ x, Feasible (buildLP i .toAnimals) x → x .objective ≤ b) ↔
    (∀ a, PhysFeasibleFeed i a → feedValue i a ≤ b) :=
  Proofs.Completeness.feed_bound_iff_true_bound i hw b

/-- non-vacuity: a physically feasible feed allocation with a positive weighted total -/
example : ∃ (i : Inp ℚ) (a : Alloc ℚ), PhysFeasibleFeed i a ∧ 0 < feedValue i a :=
  Proofs.Completeness.feed_nonvacuous

end Allfed.C02
