import AllfedModel.Model.LP
/-
`buildLP`: the linear programme of `/repo/src/optimizer/optimizer.py`
(`add_variables_and_constraints_to_model` and the `add_*_to_model` functions), written the way the
code is written: resource by resource, month by month, same branches, same row names.
Fat and protein are switched off (`INCLUDE_FAT = INCLUDE_PROTEIN = False`), the only setting the
documented scenario options produce; the harness refuses other instances explicitly.
-/
namespace Allfed.AllocLP
open Allfed.LP Allfed.LP.Aff

inductive Kind | toHumans | toAnimals
  deriving DecidableEq, Repr, Inhabited

structure Inp (α : Type) where
  nmonths : Nat
  addSeaweed : Bool
  addOutdoor : Bool
  addStored : Bool
  addMeat : Bool
  addScp : Bool
  addCs : Bool
  storeBetweenYears : Bool
  pop : α
  kcalsMonthly : α
  billionKcalsNeeded : α
  seaweedKcals : α
  initialSeaweed : α
  maxDensity : α
  minDensity : α
  harvestLoss : α
  initialBuiltArea : α
  wSeaweed : α
  wStored : α
  wMeat : α
  wCrop : α
  wScp : α
  wCs : α
  storedInitial : α
  meatSummed : α
  builtArea : List α
  growth : List α
  cropProd : List α
  maxCulled : List α
  slaughtered : List α
  scp : List α
  cs : List α
  milk : List α
  greenhouse : List α
  fish : List α
  feed : List α
  biofuel : List α
  maxFeed : List α
  maxBiofuel : List α
  limSwH : α
  limSwF : α
  limSwB : α
  limScpH : α
  limScpF : α
  limScpB : α
  limCsH : α
  limCsF : α
  limCsB : α
  minSeaweed : List α
  minCrops : List α
  minStored : List α
  minMeat : List α
  minScp : List α
  minCs : List α

section
variable {α : Type} [Add α] [Sub α] [Mul α] [Div α] [Neg α] [LE α] [LT α]
  [DecidableLT α] [OfNat α 0] [OfNat α 1] [OfScientific α]

/-- `series[month]` -/
def at' (l : List α) (m : Nat) : α := l.getD m 0

def mv (k : VK) (m : Nat) : Aff α := Aff.var (.mv k m)

/-- `x * 1 / (1 - W/100)`: the gross-up for retail waste -/
def gross (a : Aff α) (w : α) : Aff α := divr (mulr a 1) (1 - w / 100.0)

def row (nm : String) (m : Nat) (lhs : Aff α) (rel : Rel) (rhs : Aff α) : Row α :=
  ⟨s!"{nm}_{m}_Constraint", lhs, rel, rhs⟩

/-! ### resource rows -/

def seaweedRows (i : Inp α) (m : Nat) : List (Row α) :=
  let wet : Aff α := mv .swWet m
  let area : Aff α := mv .usedArea m
  [ row "Seaweed_Wet_On_Farm_Lowerbound" m (k i.initialSeaweed) .le wet,
    row "Seaweed_Wet_On_Farm_Upperbound" m wet .le (k (i.maxDensity * at' i.builtArea m)),
    row "Used_Area_Lowerbound" m area .ge (k i.initialBuiltArea),
    row "Used_Area_Upperbound" m area .le (k (at' i.builtArea m)) ] ++
  (if m = 0 then
    [ row "Seaweed_Wet_On_Farm" m wet .eq (k i.initialSeaweed),
      row "Used_Area" m area .eq (k i.initialBuiltArea),
      row "Seaweed_To_Humans" m (mv .swHumans 0) .eq (k 0),
      row "Seaweed_Feed" m (mv .swFeed 0) .eq (k 0),
      row "Seaweed_Biofuel" m (mv .swBiofuel 0) .eq (k 0) ]
  else
    let g : α := at' i.growth m / 100.0
    let hl : α := i.harvestLoss / 100.0
    [ row "Seaweed_Wet_On_Farm" m wet .eq
        (mulr (mv .swWet (m - 1)) (1 + g)
          - gross (mv .swHumans m) i.wSeaweed
          - mv .swFeed m
          - mv .swBiofuel m
          - mulr (mulr (area - mv .usedArea (m - 1)) i.minDensity) hl) ])

def cropRows (i : Inp α) (kind : Kind) (m : Nat) : List (Row α) :=
  let prod : Aff α := k (at' i.cropProd m)
  [ row "Crops_Food_Consumed" m (mv .cropConsumed m) .eq
      (gross (mv .cropHumans m) i.wCrop + mv .cropBiofuel m + mv .cropFeed m) ] ++
  (if m = 0 then
    [ row "Crops_Food_Storage" m (mv .cropStorage m) .eq (prod - mv .cropConsumed m) ]
  else if m = i.nmonths - 1 then
    [ row "Crops_Food_Storage" m (mv .cropStorage m) .eq (prod + mv .cropStorage (m - 1) - mv .cropConsumed m) ] ++
    (if kind = .toAnimals then [] else [ row "Crops_Food_None_Left" m (mv .cropStorage m) .eq (k 0) ])
  else
    [ row "Crops_Food_Storage" m (mv .cropStorage m) .eq (prod + mv .cropStorage (m - 1) - mv .cropConsumed m) ])

/-- `Stored_Food_Eaten`: end = start − humans/(1−w) − feed − biofuel -/
def storedEaten (i : Inp α) (m : Nat) : Row α :=
  row "Stored_Food_Eaten" m (mv .sfEnd m) .eq
    (mv .sfStart m - gross (mv .sfHumans m) i.wStored - mv .sfFeed m - mv .sfBiofuel m)

def storedRowsFirstYear (i : Inp α) (m : Nat) : List (Row α) :=
  if m = 0 then
    [ row "Stored_Food_Start" m (mv .sfStart 0) .eq (k i.storedInitial), storedEaten i 0 ]
  else if 12 < m then
    [ row "Stored_Food_To_Humans" m (mv .sfHumans m) .eq (k 0),
      row "Stored_Food_Feed" m (mv .sfFeed m) .eq (k 0),
      row "Stored_Food_Biofuel" m (mv .sfBiofuel m) .eq (k 0),
      row "Stored_Food_Start" m (mv .sfStart m) .eq (mv .sfEnd (m - 1)) ]
  else
    [ storedEaten i m, row "Stored_Food_Start" m (mv .sfStart m) .eq (mv .sfEnd (m - 1)) ]

def storedRows (i : Inp α) (kind : Kind) (m : Nat) : List (Row α) :=
  if !i.storeBetweenYears then storedRowsFirstYear i m else
  (if m = 0 then
    [ row "Stored_Food_Start" m (mv .sfStart 0) .eq (k i.storedInitial) ]
  else if m = i.nmonths - 1 then
    (if kind = .toAnimals then [] else [ row "Stored_Food_End" m (mv .sfEnd m) .eq (k 0) ]) ++
    [ row "Stored_Food_Start" m (mv .sfStart m) .eq (mv .sfEnd (m - 1)) ]
  else
    [ row "Stored_Food_Start" m (mv .sfStart m) .eq (mv .sfEnd (m - 1)) ]) ++
  [ storedEaten i m ]

def meatRows (i : Inp α) (m : Nat) : List (Row α) :=
  if !i.storeBetweenYears then
    [ row "Meat_Eaten" m (gross (mv .meatEaten m) i.wMeat) .le (k (at' i.slaughtered m)) ]
  else
    [ (if m = 0 then row "Meat_Start" m (mv .meatStart 0) .eq (k i.meatSummed)
       else row "Meat_Start" m (mv .meatStart m) .eq (mv .meatEnd (m - 1))),
      row "Meat_Eaten" m (mv .meatEnd m) .eq (mv .meatStart m - gross (mv .meatEaten m) i.wMeat),
      -- cumulative consumption (initial stock − stock left) ≤ running slaughter total
      row "Meat_Eaten_Maximum" m (k i.meatSummed - mv .meatEnd m) .le (k (at' i.maxCulled m)) ]

def scpRows (i : Inp α) (m : Nat) : List (Row α) :=
  [ row "Methane_SCP" m (gross (mv .scpHumans m) i.wScp + mv .scpFeed m + mv .scpBiofuel m) .le (k (at' i.scp m)) ]

def csRows (i : Inp α) (m : Nat) : List (Row α) :=
  [ row "Cellulosic_Sugar" m (gross (mv .csHumans m) i.wCs + mv .csFeed m + mv .csBiofuel m) .le (k (at' i.cs m)) ]

/-- `assign_predetermined_human_consumption_of_foods` (feed-maximising round only) -/
def pinnedRows (i : Inp α) (nm : String) (expr : Aff α) (minCons : α) (m : Nat) : List (Row α) :=
  let lo : α := if i.pop < 1e7 then 0.9999 * minCons else 0.99999 * minCons
  let hi : α := if i.pop < 1e7 then 1.0001 * minCons else 1.00001 * minCons
  [ row (nm ++ "_Min_Requirement") m expr .ge (k lo), row (nm ++ "_Max_Requirement") m expr .le (k hi) ]

/-- the pin of seaweed after the repair of the round-2 infeasibility (C16): only the lower row
    `Seaweed_Min_Requirement` (same name and format as in `pinnedRows`).  Seaweed that has grown must
    be harvested (equality ledger, density ceiling, no disposal), so an upper pin on what people eat
    of it can make the feed-maximising round infeasible. -/
def pinnedRowsLower (i : Inp α) (nm : String) (expr : Aff α) (minCons : α) (m : Nat) : List (Row α) :=
  let lo : α := if i.pop < 1e7 then 0.9999 * minCons else 0.99999 * minCons
  [ row (nm ++ "_Min_Requirement") m expr .ge (k lo) ]

/-- one resource: for every month its own rows, then (feed round) the pinned consumption rows -/
def resourceRows (i : Inp α) (kind : Kind) (on : Bool) (f : Nat → List (Row α)) (pin : Nat → List (Row α)) : List (Row α) :=
  if on then (List.range i.nmonths).flatMap (fun m => f m ++ (if kind = .toAnimals then pin m else [])) else []

/-! ### rows that are not specific to one resource -/

def feedSum (i : Inp α) (m : Nat) : Aff α :=
  varIf i.addStored (.mv .sfFeed m) + varIf i.addOutdoor (.mv .cropFeed m)
    + mulr (varIf i.addSeaweed (.mv .swFeed m)) i.seaweedKcals
    + varIf i.addCs (.mv .csFeed m) + varIf i.addScp (.mv .scpFeed m)

def biofuelSum (i : Inp α) (m : Nat) : Aff α :=
  varIf i.addStored (.mv .sfBiofuel m) + varIf i.addOutdoor (.mv .cropBiofuel m)
    + mulr (varIf i.addSeaweed (.mv .swBiofuel m)) i.seaweedKcals
    + varIf i.addCs (.mv .csBiofuel m) + varIf i.addScp (.mv .scpBiofuel m)

/-- the sums are LP expressions (not the float `0`) iff some resource contributes a variable -/
def anyFeedVar (i : Inp α) : Bool := i.addStored || i.addOutdoor || i.addSeaweed || i.addCs || i.addScp

def feedBiofuelRows (i : Inp α) (kind : Kind) (m : Nat) : List (Row α) :=
  if !anyFeedVar i then [] else
  match kind with
  | .toHumans =>
    [ row "Feed_Used" m (feedSum i m) .eq (k (at' i.feed m)),
      row "Biofuel_Used" m (biofuelSum i m) .eq (k (at' i.biofuel m)) ]
  | .toAnimals =>
    [ row "Feed_Used" m (feedSum i m) .le (k (at' i.maxFeed m)),
      row "Biofuel_Used" m (biofuelSum i m) .le (k (at' i.maxBiofuel m)) ] ++
    (if 0 < m then
      [ row "Feed_Decreases" m (feedSum i (m - 1)) .ge (feedSum i m),
        row "Biofuel_Decreases" m (biofuelSum i (m - 1)) .ge (biofuelSum i m) ]
     else [])

def humanSum (i : Inp α) (m : Nat) : Aff α :=
  varIf i.addStored (.mv .sfHumans m) + varIf i.addOutdoor (.mv .cropHumans m)
    + mulr (varIf i.addSeaweed (.mv .swHumans m)) i.seaweedKcals
    + k (at' i.milk m)
    + varIf i.addMeat (.mv .meatEaten m)
    + varIf i.addCs (.mv .csHumans m)
    + varIf i.addScp (.mv .scpHumans m)
    + k (at' i.greenhouse m)
    + k (at' i.fish m)

def kcalsFedRow (i : Inp α) (m : Nat) : Row α :=
  ⟨s!"Kcals_Fed_Month_{m}_Constraint", mv .consumedKcals m, .eq,
    mulr (divr (humanSum i m) i.billionKcalsNeeded) 100.0⟩

/-- `add_percentage_intake_constraints` for one resilient food -/
def intakeRows (i : Inp α) (kind : Kind) (on : Bool) (nm : String) (ratio : α)
    (vH vF vB : VK) (limH limF limB : α) (m : Nat) : List (Row α) :=
  if !on then [] else
  let need : α := i.pop * i.kcalsMonthly / 1e9
  (if kind = .toHumans then
    [ row (nm ++ "_Limit_HUMANS") m (k (limH / 100.0 * need)) .ge (mulr (mv vH m) ratio),
      row (nm ++ "_Limit_Reduced_Population_HUMANS") m (mulr (mv vH m) ratio) .le
        (smul (limH / 100.0) (divr (mulr (mv .consumedKcals m) i.billionKcalsNeeded) 100.0)) ]
   else []) ++
  [ row (nm ++ "_Limit_FEED") m (mulr (mv vF m) ratio) .le (k (limF / 100.0 * at' i.feed m)),
    row (nm ++ "_Limit_BIOFUEL") m (mulr (mv vB m) ratio) .le (k (limB / 100.0 * at' i.biofuel m)) ]

def generalRows (i : Inp α) (kind : Kind) (m : Nat) : List (Row α) :=
  feedBiofuelRows i kind m ++
  (if kind = .toHumans then [kcalsFedRow i m] else []) ++
  intakeRows i kind i.addSeaweed "Seaweed" i.seaweedKcals .swHumans .swFeed .swBiofuel i.limSwH i.limSwF i.limSwB m ++
  intakeRows i kind i.addScp "Methane_SCP" 1 .scpHumans .scpFeed .scpBiofuel i.limScpH i.limScpF i.limScpB m ++
  intakeRows i kind i.addCs "Cellulosic_Sugar" 1 .csHumans .csFeed .csBiofuel i.limCsH i.limCsF i.limCsB m

def totalNonhuman (i : Inp α) : Aff α × Aff α :=
  (List.range i.nmonths).foldl (fun acc m => (acc.1 + feedSum i m, acc.2 + biofuelSum i m)) (k 0, k 0)

/-- `2/3·Σ feed + Σ biofuel / 3` -/
def nonhumanObjective (i : Inp α) : Aff α :=
  let t := totalNonhuman i
  smul (2.0 / 3.0) t.1 + divr t.2 3.0

def objectiveRows (i : Inp α) (kind : Kind) : List (Row α) :=
  match kind with
  | .toHumans => (List.range i.nmonths).map fun m =>
      ⟨s!"Kcals_Fed_Month_{m}_Objective_Constraint", Aff.var .objective, .le, mv .consumedKcals m⟩
  | .toAnimals =>
      [⟨"Nonhuman_Consumption_All_Months_Objective_Constraint", Aff.var .objective, .le, nonhumanObjective i⟩]

/-- the linear programme with the pinning rule of seaweed as a parameter (the other five foods are
    pinned from both sides) -/
def buildLPWith (seaweedPin : Inp α → String → Aff α → α → Nat → List (Row α))
    (i : Inp α) (kind : Kind) : List (Row α) :=
  resourceRows i kind i.addSeaweed (seaweedRows i)
      (fun m => seaweedPin i "Seaweed" (mulr (mv .swHumans m) i.seaweedKcals) (at' i.minSeaweed m) m) ++
  resourceRows i kind i.addOutdoor (cropRows i kind)
      (fun m => pinnedRows i "Outdoor_crops" (mv .cropHumans m) (at' i.minCrops m) m) ++
  resourceRows i kind i.addStored (storedRows i kind)
      (fun m => pinnedRows i "Stored_food" (mv .sfHumans m) (at' i.minStored m) m) ++
  resourceRows i kind i.addMeat (meatRows i)
      (fun m => pinnedRows i "Meat" (mv .meatEaten m) (at' i.minMeat m) m) ++
  resourceRows i kind i.addScp (scpRows i)
      (fun m => pinnedRows i "Methane_SCP" (mv .scpHumans m) (at' i.minScp m) m) ++
  resourceRows i kind i.addCs (csRows i)
      (fun m => pinnedRows i "Cellulosic_Sugar" (mv .csHumans m) (at' i.minCs m) m) ++
  (List.range i.nmonths).flatMap (generalRows i kind) ++
  objectiveRows i kind

/-- the linear programme of the first solve of a round (`model` at the moment CBC is first called);
    seaweed is pinned from below only -/
def buildLP (i : Inp α) (kind : Kind) : List (Row α) := buildLPWith pinnedRowsLower i kind

/-- the programme as it was before the repair: seaweed pinned from both sides like the other foods
    (kept for the counter-example `C16.round2_seaweed_pin_infeasible_before_fix`) -/
def buildLPBeforeSeaweedFix (i : Inp α) (kind : Kind) : List (Row α) := buildLPWith pinnedRows i kind

/-! ### rows added for the later, tie-breaking solves (the reported allocation satisfies these too) -/

/-- `constrain_next_optimization_to_have_same_minimum_starvation` / `…_same_feed_biofuel`;
    `z` is the optimum of the first solve -/
def floorRows (i : Inp α) (kind : Kind) (z : α) : List (Row α) :=
  let minv : α := z * 0.99995
  match kind with
  | .toHumans => (List.range i.nmonths).map fun m =>
      ⟨s!"Old_Objective_Month_{m}_Objective_Constraint", k minv, .le, mv .consumedKcals m⟩
  | .toAnimals => [⟨"Old_Objective_Constraint", k minv, .le, nonhumanObjective i⟩]

end
end Allfed.AllocLP
