import sys, os
os.chdir('/repo'); sys.path.insert(0,'/repo')
import numpy as np, warnings
warnings.filterwarnings('ignore')
from src.food_system import animal_populations as AP
from src.food_system.food import Food
Food.conversions.set_nutrition_requirements(kcals_daily=2100,fat_daily=47,protein_daily=51,include_fat=False,include_protein=False,population=1e7)
def F(a): return Food(kcals=np.array(a,dtype=float),fat=np.zeros(len(a)),protein=np.zeros(len(a)),kcals_units='billion kcals each month',fat_units='thousand tons each month',protein_units='thousand tons each month')
kd={'KCALS_PER_CHICKEN':1.65*1525/1e9,'KCALS_PER_PIG':86*3590/1e9,'KCALS_PER_SMALL_ANIMAL':2.36*1525/1e9,'KCALS_PER_MEDIUM_ANIMAL':24.6*3590/1e9,'KCALS_PER_LARGE_ANIMAL':269.7*2750/1e9}
def check(code,strategy,feed,grass):
    N=len(feed)
    animals,fu,gu=AP.main(code,F(feed),F(grass),strategy,None,remove_first_month=0,kcals_per_head_meat_dict=kd)
    issues=[]
    byname={a.animal_type:a for a in animals}
    for a in animals:
        pop=np.array(a.population); assert len(pop)==N+1,(len(pop),N)
        sl=np.array(a.slaughter)[1:]; od=np.array(a.other_death_causes_other_than_starving)[1:]; st=np.array(a.other_death_starving)[1:]
        hh=np.array(a.homekill_healthy_this_month)[1:]; hs=np.array(a.homekill_starving_this_month)[1:]
        births=np.array(a.births_animals_month); tp=np.array(a.transfer_population)
        assert len(births)==N and len(tp)==N and len(sl)==N
        if a.animal_function=='milk':
            ret=np.array(a.retiring_milk_animals); tin=np.zeros(N)
        else:
            ret=np.zeros(N); tin=tp
        exp=np.maximum(0,pop[:-1]+births+tin-ret-od-sl-st-hh-hs)
        d=np.abs(exp-pop[1:])/np.maximum(1,pop[:-1])
        if d.max()>1e-9: issues.append((a.animal_type,'ledger',int(d.argmax()),float(d.max())))
        for nm,v in (('pop',pop),('sl',sl),('od',od),('st',st),('births',births),('ret',ret)):
            if v.min()<0: issues.append((a.animal_type,nm+' negative',float(v.min())))
        if (np.array(tp) if a.animal_function!='milk' else -np.array(tp)).min()<0: issues.append((a.animal_type,'transfer sign'))
        stv=np.array(a.population_starving_pre_slaughter)[1:]
        if stv.min()<-1e-9: issues.append((a.animal_type,'starving negative',float(stv.min()), int(stv.argmin())))
        if a.animal_function=='milk':
            m=byname.get('meat_'+a.animal_species)
            if m is not None:
                expect=np.array(a.retiring_milk_animals)+np.array(a.transfer_births)
                if np.abs(expect-np.array(m.transfer_population)).max()>1e-9*max(1,expect.max()): issues.append((a.animal_type,'transfer mismatch'))
            else: issues.append((a.animal_type,'no meat herd for transfers'))
    # hours
    for size in ('small','medium','large'):
        cap=sum(a.animal_slaughter_hours*a.baseline_slaughter for a in animals if a.animal_size==size)
        for m in range(N):
            used=sum(a.animal_slaughter_hours*a.slaughter[m+1] for a in animals if a.animal_size==size)
            if used>cap*(1+1e-9)+1e-9: issues.append((size,'hours',m,used,cap)); break
    if (fu.kcals>np.array(feed)+1e-9).any() or (gu.kcals>np.array(grass)+1e-9).any(): issues.append('overuse')
    return issues,[a.animal_type for a in animals]
N=int(sys.argv[2]) if len(sys.argv)>2 else 36
for code in sys.argv[1].split(','):
    for strat in ('baseline','reduced','feed_only_ruminants'):
        for ff,gf in ((0,0),(0.5,0.5),(0.95,1.0),(2,2),(0,1)):
            # scale by rough need: use world-ish numbers relative; get need from a dry run
            animals,_,_=AP.main(code,F([0]*1),F([0]*1),strat,None,remove_first_month=0,kcals_per_head_meat_dict=kd)
            need=sum(a.net_energy_required_per_month()*a.population[0] for a in animals)
            rneed=sum(a.net_energy_required_per_month()*a.population[0] for a in animals if a.digestion_type=='ruminant')
            iss,order=check(code,strat,[ff*need/0.8]*N,[gf*rneed/0.6]*N)
            print(code,strat,ff,gf,'OK' if not iss else iss[:4])
